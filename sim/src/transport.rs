//! Simulated transports: `SimTransport` (fully scripted Stream+Sink with a contract monitor) and
//! `Tap` (the same monitor and fault injector around a real transport).

use crate::exec::{cur, preempt};
use crate::hist::{EvKind, Item, Op, Res};
use crate::Violation;
use futures::{Sink, Stream};
use serde::{Deserialize, Serialize};
use std::cell::RefCell;
use std::collections::{BTreeMap, VecDeque};
use std::fmt;
use std::pin::Pin;
use std::rc::Rc;
use std::task::{Context, Poll, Waker};

#[derive(Debug, Clone)]
pub struct SimErr(pub String);
impl fmt::Display for SimErr {
    fn fmt(&self, f: &mut fmt::Formatter<'_>) -> fmt::Result {
        write!(f, "sim transport error: {}", self.0)
    }
}
impl std::error::Error for SimErr {}

/// Turns a protocol message into its history summary.
pub trait Describe {
    fn describe(&self) -> Item;
}

fn deadline_ms(i: std::time::Instant) -> i64 {
    cur().map(|s| s.ms_of_local(i)).unwrap_or(0)
}

impl Describe for tarpc::ClientMessage<u64> {
    fn describe(&self) -> Item {
        match self {
            tarpc::ClientMessage::Request(r) => Item::Req {
                id: r.id,
                tag: r.message,
                deadline_ms: deadline_ms(r.context.deadline),
                trace: u128::from(r.context.trace_context.trace_id),
                span: u64::from(r.context.trace_context.span_id),
                sampled: r.context.trace_context.sampling_decision
                    == tarpc::trace::SamplingDecision::Sampled,
            },
            tarpc::ClientMessage::Cancel {
                trace_context,
                request_id,
            } => Item::Cancel {
                id: *request_id,
                trace: u128::from(trace_context.trace_id),
                span: u64::from(trace_context.span_id),
                sampled: trace_context.sampling_decision == tarpc::trace::SamplingDecision::Sampled,
            },
            _ => Item::Other("client-message".into()),
        }
    }
}

impl Describe for tarpc::Response<u64> {
    fn describe(&self) -> Item {
        Item::Resp {
            id: self.request_id,
            ok: self.message.as_ref().ok().copied(),
            err: self
                .message
                .as_ref()
                .err()
                .map(|e| (format!("{:?}", e.kind), e.detail.clone())),
        }
    }
}

#[derive(Clone, Debug, Serialize, Deserialize, PartialEq, Eq)]
pub struct FaultAt {
    pub op: Op2,
    /// 1-based: the k-th invocation of `op` on this link fails.
    pub k: u32,
}

#[derive(Clone, Copy, Debug, Serialize, Deserialize, PartialEq, Eq, Hash, PartialOrd, Ord)]
pub enum Op2 {
    Ready,
    Send,
    Flush,
    Close,
    Next,
    /// End-of-stream instead of the k-th poll_next result.
    NextEof,
}

#[derive(Clone, Debug, Serialize, Deserialize)]
pub struct LinkCfg {
    /// Write-side capacity in items (0 = unbounded).
    pub cap: usize,
    /// Socket-like (not ready => flush pending) or queue-like (flush always completes).
    pub coupled: bool,
    pub faults: Vec<FaultAt>,
    /// After an injected readiness/flush/close failure every later operation fails too (true),
    /// or the transport carries on as if nothing happened (false: a transient failure; a failed
    /// flush discards what was buffered).
    #[serde(default = "default_true")]
    pub sticky: bool,
    /// Coupled links only: a full sink does not flush inside `poll_ready` (as `Framed` does) but
    /// stays not-ready until `poll_flush` has been called and completed.
    #[serde(default)]
    pub explicit_flush: bool,
}

fn default_true() -> bool {
    true
}

impl Default for LinkCfg {
    fn default() -> Self {
        LinkCfg {
            cap: 0,
            coupled: true,
            faults: vec![],
            sticky: true, explicit_flush: false }
    }
}

/// Per-sink contract monitor (DESIGN.md A.3).
#[derive(Default, Debug)]
pub struct Monitor {
    pub token: bool,
    pub unflushed: u32,
    pub flush_pending: bool,
    pub closed: bool,
    pub failed: bool,
    pub not_ready_in_poll: u32,
    pub max_not_ready_in_poll: u32,
    pub in_owner_poll: bool,
    pub violations: Vec<Violation>,
    pub sends: u64,
    /// The read side reported an error: the component is shutting the connection down.
    pub read_failed: bool,
    /// Stack position at the first read of the current poll of the owning component, and whether
    /// runaway stack growth across reads within one poll has been reported already.
    pub sp_base: Option<usize>,
    pub stack_growth_reported: bool,
    /// Consecutive owner polls in which the sink was asked for readiness, said "not ready" and
    /// never said anything else (busy-wait rule below).
    pub saw_not_ready: bool,
    pub saw_ready_result: bool,
    pub not_ready_polls: u32,
    pub busy_wait_reported: bool,
}

/// How much deeper than the first read of a poll a later read of the same poll may sit on the
/// stack. Reads within one poll come from one loop at one depth; depth that grows with the number
/// of messages is unbounded recursion on peer-supplied input, which ends in a stack overflow
/// (a process abort, not even a panic).
pub const STACK_GROWTH_LIMIT: usize = 192 * 1024;

/// A component that was told "not ready" has to wait for the sink's wake-up. It may still be
/// polled for other reasons (a new request, a reply, a timer, a cancellation), so some polls that
/// find the sink still not ready are legal - but their number is bounded by the number of such
/// events, a few per call. Thousands of such polls in a row, in a run whose executor polls a task
/// only when its waker fired, mean the component keeps waking itself: it busy-waits through the
/// executor instead of waiting to be woken (and, the simulated clock being frozen while anything
/// is runnable, the stall it waits for can never end).
pub const BUSY_WAIT_POLLS: u32 = 8_000;
pub const SPIN_LIMIT: u32 = 64;
pub const SPIN_PANIC: &str = "SIM_SPIN: transport polled not-ready more than 64 times in one poll";

impl Monitor {
    fn v(&mut self, rule: &str, tags: &[&str], detail: String) {
        self.violations.push(Violation {
            prop: "C14",
            rule: rule.to_string(),
            tags: tags.iter().map(|s| s.to_string()).collect(),
            detail,
        });
    }
    pub fn on_ready(&mut self, res: Res, side: &str) {
        match res {
            Res::Ok => {
                self.token = true;
                self.saw_ready_result = true;
                self.not_ready_polls = 0;
            }
            Res::Pending => {
                self.saw_not_ready = true;
                self.note_not_ready(side)
            }
            Res::Err => {
                self.failed = true;
                self.saw_ready_result = true;
                self.not_ready_polls = 0;
            }
            Res::Eof => {}
        }
    }
    fn note_not_ready(&mut self, side: &str) {
        self.not_ready_in_poll += 1;
        self.max_not_ready_in_poll = self.max_not_ready_in_poll.max(self.not_ready_in_poll);
        if self.not_ready_in_poll > SPIN_LIMIT {
            self.v(
                "spin",
                &[side],
                format!("{} not-ready results inside one poll", self.not_ready_in_poll),
            );
            self.not_ready_in_poll = 0;
            std::panic::panic_any(SPIN_PANIC);
        }
    }
    pub fn on_send(&mut self, side: &str, item: &Item) {
        self.sends += 1;
        if self.closed {
            self.v("write-after-close", &[side], format!("{item:?}"));
        }
        if self.failed {
            self.v("write-after-failure", &[side], format!("{item:?}"));
        }
        if !self.token {
            self.v("send-unready", &[side], format!("{item:?}"));
        }
        self.token = false;
        self.unflushed += 1;
    }
    pub fn on_flush(&mut self, res: Res) {
        match res {
            Res::Ok => {
                self.unflushed = 0;
                self.flush_pending = false;
            }
            Res::Pending => self.flush_pending = true,
            Res::Err => self.failed = true,
            Res::Eof => {}
        }
    }
    pub fn on_close(&mut self, res: Res) {
        self.closed = true;
        if res == Res::Err {
            self.failed = true;
        }
        if res == Res::Ok {
            self.unflushed = 0;
        }
    }
    pub fn owner_poll_begin(&mut self) {
        self.not_ready_in_poll = 0;
        self.in_owner_poll = true;
        self.sp_base = None;
        self.saw_not_ready = false;
        self.saw_ready_result = false;
    }
    pub fn owner_poll_end(&mut self, side: &str, pending: bool) {
        self.in_owner_poll = false;
        self.not_ready_in_poll = 0;
        if self.saw_not_ready && !self.saw_ready_result {
            self.not_ready_polls += 1;
            if self.not_ready_polls > BUSY_WAIT_POLLS && !self.busy_wait_reported {
                self.busy_wait_reported = true;
                self.v(
                    "busy-wait",
                    &[side],
                    format!("{} polls in a row found the sink not ready: the component keeps itself runnable instead of waiting for the sink's wake-up", self.not_ready_polls),
                );
            }
        }
        if pending && self.unflushed > 0 && !self.flush_pending && !self.failed && !self.closed && !self.read_failed {
            self.v(
                "idle-unflushed",
                &[side],
                format!("{} item(s) written but not flushed when going idle", self.unflushed),
            );
        }
    }
}

pub struct LinkState<In, Out> {
    pub id: u8,
    pub side: &'static str,
    pub cfg: LinkCfg,
    inbox: VecDeque<In>,
    in_eof: bool,
    read_waker: Option<Waker>,
    staged: VecDeque<Out>,
    wire: VecDeque<Out>,
    pub blocked: bool,
    block_depth: u32,
    write_waker: Option<Waker>,
    peer_waker: Option<Waker>,
    pub write_closed: bool,
    pub dropped: bool,
    counts: BTreeMap<Op2, u32>,
    pub mon: Monitor,
    /// number of items ever handed to the peer side of the wire
    pub wired: u64,
    pub next_calls: u32,
    /// end-of-stream has been returned once; later polls block (see poll_next)
    pub eof_returned: bool,
    /// sticky failure in force
    broken: bool,
}

pub type Link<In, Out> = Rc<RefCell<LinkState<In, Out>>>;

pub struct SimTransport<In, Out> {
    st: Link<In, Out>,
}

/// The scripted peer's handle on the far end of a link.
pub struct PeerEnd<In, Out> {
    pub st: Link<In, Out>,
}

impl<In, Out> Clone for PeerEnd<In, Out> {
    fn clone(&self) -> Self {
        PeerEnd { st: self.st.clone() }
    }
}

pub fn sim_link<In, Out>(id: u8, side: &'static str, cfg: LinkCfg) -> (SimTransport<In, Out>, PeerEnd<In, Out>) {
    let st = Rc::new(RefCell::new(LinkState {
        id,
        side,
        cfg,
        inbox: VecDeque::new(),
        in_eof: false,
        read_waker: None,
        staged: VecDeque::new(),
        wire: VecDeque::new(),
        blocked: false,
        block_depth: 0,
        write_waker: None,
        peer_waker: None,
        write_closed: false,
        dropped: false,
        counts: BTreeMap::new(),
        mon: Monitor::default(),
        wired: 0,
        next_calls: 0,
        eof_returned: false,
        broken: false,
    }));
    (SimTransport { st: st.clone() }, PeerEnd { st })
}

fn count_op(what: &'static str) {
    if let Some(sim) = cur() {
        sim.count(what);
    }
}

fn log_op(link: u8, op: Op, res: Res, item: Option<Item>) {
    if let Some(sim) = cur() {
        sim.log(EvKind::TOp { link, op, res, item });
    }
}

impl<In, Out> LinkState<In, Out> {
    fn fault(&mut self, op: Op2) -> bool {
        let c = self.counts.entry(op).or_insert(0);
        *c += 1;
        let k = *c;
        self.cfg.faults.iter().any(|f| f.op == op && f.k == k)
    }
    pub fn op_count(&self, op: Op2) -> u32 {
        self.counts.get(&op).copied().unwrap_or(0)
    }
    fn flush_staged(&mut self) {
        let n = self.staged.len();
        while let Some(x) = self.staged.pop_front() {
            self.wire.push_back(x);
        }
        self.wired += n as u64;
        if n > 0 {
            if let Some(w) = self.peer_waker.take() {
                w.wake();
            }
        }
    }
    pub fn writable_now(&self) -> bool {
        !self.blocked && !self.broken
    }
    pub fn staged_len(&self) -> usize {
        self.staged.len()
    }
    pub fn wire_len(&self) -> usize {
        self.wire.len()
    }
    pub fn inbox_len(&self) -> usize {
        self.inbox.len()
    }
}

impl<In, Out> Drop for SimTransport<In, Out> {
    fn drop(&mut self) {
        let w = {
            let mut st = self.st.borrow_mut();
            st.dropped = true;
            st.peer_waker.take()
        };
        if let Some(w) = w {
            w.wake();
        }
    }
}

impl<In: Describe, Out> Stream for SimTransport<In, Out> {
    type Item = Result<In, SimErr>;
    fn poll_next(self: Pin<&mut Self>, cx: &mut Context<'_>) -> Poll<Option<Self::Item>> {
        preempt("t:next");
        count_op("op.next");
        let mut st = self.st.borrow_mut();
        let link = st.id;
        st.next_calls += 1;
        {
            let marker = 0u8;
            let sp = &marker as *const u8 as usize;
            match st.mon.sp_base {
                None => st.mon.sp_base = Some(sp),
                Some(base) if st.mon.in_owner_poll && base > sp && base - sp > STACK_GROWTH_LIMIT => {
                    if !st.mon.stack_growth_reported {
                        st.mon.stack_growth_reported = true;
                        let depth = base - sp;
                        let reads = st.next_calls;
                        st.mon.violations.push(Violation {
                            prop: "C16",
                            rule: "stack-growth".to_string(),
                            tags: vec![],
                            detail: format!("within one poll the reads of the transport moved {depth} bytes down the stack ({reads} reads so far): the stack grows with the number of messages the peer sends"),
                        });
                    }
                    // stop feeding the recursion before it overflows the stack for real
                    drop(st);
                    log_op(link, Op::Next, Res::Pending, None);
                    return Poll::Pending;
                }
                _ => {}
            }
        }
        if st.eof_returned {
            // The Stream contract leaves polling after the end unspecified ("may panic, block
            // forever, or cause other kinds of problems"): this transport blocks forever, without
            // a wake-up. A component that needs to remember the end has to do so itself.
            drop(st);
            if let Some(s) = cur() {
                s.count("probe.polled_after_end_of_stream");
            }
            log_op(link, Op::Next, Res::Pending, None);
            return Poll::Pending;
        }
        if st.fault(Op2::Next) {
            st.mon.read_failed = true;
            drop(st);
            if let Some(s) = cur() {
                s.count("fault.err_next");
            }
            log_op(link, Op::Next, Res::Err, None);
            return Poll::Ready(Some(Err(SimErr("injected read failure".into()))));
        }
        if st.fault(Op2::NextEof) {
            st.in_eof = true;
            st.eof_returned = true;
            st.inbox.clear();
            drop(st);
            if let Some(s) = cur() {
                s.count("fault.eof_next");
            }
            log_op(link, Op::Next, Res::Eof, None);
            return Poll::Ready(None);
        }
        if let Some(x) = st.inbox.pop_front() {
            drop(st);
            let d = x.describe();
            log_op(link, Op::Next, Res::Ok, Some(d));
            return Poll::Ready(Some(Ok(x)));
        }
        if st.in_eof {
            st.eof_returned = true;
            drop(st);
            log_op(link, Op::Next, Res::Eof, None);
            return Poll::Ready(None);
        }
        st.read_waker = Some(cx.waker().clone());
        drop(st);
        log_op(link, Op::Next, Res::Pending, None);
        Poll::Pending
    }
}

impl<In, Out: Describe> Sink<Out> for SimTransport<In, Out> {
    type Error = SimErr;

    fn poll_ready(self: Pin<&mut Self>, cx: &mut Context<'_>) -> Poll<Result<(), SimErr>> {
        preempt("t:ready");
        count_op("op.ready");
        let mut st = self.st.borrow_mut();
        let link = st.id;
        let side = st.side;
        let res = if st.broken || st.fault(Op2::Ready) {
            if !st.broken {
                if let Some(s) = cur() {
                    s.count("fault.err_ready");
                }
                st.broken = st.cfg.sticky;
            }
            Res::Err
        } else if st.cfg.coupled {
            if st.cfg.cap > 0 && st.staged.len() >= st.cfg.cap {
                if st.blocked || st.cfg.explicit_flush {
                    st.write_waker = Some(cx.waker().clone());
                    Res::Pending
                } else {
                    st.flush_staged();
                    Res::Ok
                }
            } else {
                Res::Ok
            }
        } else if st.cfg.cap > 0 && st.wire.len() >= st.cfg.cap {
            st.write_waker = Some(cx.waker().clone());
            Res::Pending
        } else {
            Res::Ok
        };
        if res == Res::Pending {
            if let Some(s) = cur() {
                s.count("fault.not_ready");
            }
        }
        drop(st);
        log_op(link, Op::Ready, res, None);
        // The monitor may panic (spin breaker); the RefMut is released by unwinding.
        self.st.borrow_mut().mon.on_ready(res, side);
        match res {
            Res::Ok => Poll::Ready(Ok(())),
            Res::Pending => Poll::Pending,
            _ => Poll::Ready(Err(SimErr("injected readiness failure".into()))),
        }
    }

    fn start_send(self: Pin<&mut Self>, item: Out) -> Result<(), SimErr> {
        preempt("t:send");
        count_op("op.send");
        let d = item.describe();
        let mut st = self.st.borrow_mut();
        let link = st.id;
        let side = st.side;
        st.mon.on_send(side, &d);
        if st.fault(Op2::Send) {
            st.mon.unflushed = st.mon.unflushed.saturating_sub(1);
            if matches!(d, Item::Cancel { .. } | Item::Resp { .. }) {
                // the component treats this write failure as terminal and shuts down
                st.mon.read_failed = true;
            }
            drop(st);
            if let Some(s) = cur() {
                s.count("fault.err_send");
            }
            log_op(link, Op::Send, Res::Err, Some(d));
            return Err(SimErr("injected write failure".into()));
        }
        // A bounded sink rejects an item it has no room for (as futures' bounded Sender does).
        let full = st.cfg.cap > 0
            && if st.cfg.coupled { st.staged.len() >= st.cfg.cap } else { st.wire.len() >= st.cfg.cap };
        if full {
            st.mon.unflushed = st.mon.unflushed.saturating_sub(1);
            st.mon.read_failed = true;
            drop(st);
            if let Some(s) = cur() {
                s.log(EvKind::Fault { kind: "reject_unready_write", arg: 0 });
            }
            log_op(link, Op::Send, Res::Err, Some(d));
            return Err(SimErr("start_send called while the sink was full".into()));
        }
        if st.cfg.coupled {
            st.staged.push_back(item);
        } else {
            st.wire.push_back(item);
            st.wired += 1;
            if let Some(w) = st.peer_waker.take() {
                w.wake();
            }
        }
        drop(st);
        log_op(link, Op::Send, Res::Ok, Some(d));
        Ok(())
    }

    fn poll_flush(self: Pin<&mut Self>, cx: &mut Context<'_>) -> Poll<Result<(), SimErr>> {
        preempt("t:flush");
        count_op("op.flush");
        let mut st = self.st.borrow_mut();
        let link = st.id;
        let res = if st.broken || st.fault(Op2::Flush) {
            if !st.broken {
                if let Some(s) = cur() {
                    s.count("fault.err_flush");
                }
                st.broken = st.cfg.sticky;
                if !st.cfg.sticky {
                    // a transient flush failure loses what was buffered
                    st.staged.clear();
                }
            }
            Res::Err
        } else if st.cfg.coupled && !st.staged.is_empty() {
            if st.blocked {
                st.write_waker = Some(cx.waker().clone());
                if let Some(s) = cur() {
                    s.count("fault.flush_pending");
                }
                Res::Pending
            } else {
                let was_full = st.cfg.cap > 0 && st.staged.len() >= st.cfg.cap;
                st.flush_staged();
                // whoever was told "not ready" is notified now that there is room again (the
                // Sink contract: a Pending poll_ready registers for exactly this)
                if was_full && st.cfg.explicit_flush {
                    if let Some(w) = st.write_waker.take() {
                        w.wake();
                    }
                }
                Res::Ok
            }
        } else {
            Res::Ok
        };
        st.mon.on_flush(res);
        drop(st);
        log_op(link, Op::Flush, res, None);
        match res {
            Res::Ok => Poll::Ready(Ok(())),
            Res::Pending => Poll::Pending,
            _ => Poll::Ready(Err(SimErr("injected flush failure".into()))),
        }
    }

    fn poll_close(self: Pin<&mut Self>, cx: &mut Context<'_>) -> Poll<Result<(), SimErr>> {
        preempt("t:close");
        count_op("op.close");
        let mut st = self.st.borrow_mut();
        let link = st.id;
        let res = if st.broken || st.fault(Op2::Close) {
            if !st.broken {
                if let Some(s) = cur() {
                    s.count("fault.err_close");
                }
                st.broken = st.cfg.sticky;
            }
            Res::Err
        } else if st.cfg.coupled && !st.staged.is_empty() && st.blocked {
            st.write_waker = Some(cx.waker().clone());
            Res::Pending
        } else {
            st.flush_staged();
            st.write_closed = true;
            if let Some(w) = st.peer_waker.take() {
                w.wake();
            }
            Res::Ok
        };
        st.mon.on_close(res);
        drop(st);
        log_op(link, Op::Close, res, None);
        match res {
            Res::Ok => Poll::Ready(Ok(())),
            Res::Pending => Poll::Pending,
            _ => Poll::Ready(Err(SimErr("injected close failure".into()))),
        }
    }
}

impl<In: Describe, Out: Describe> PeerEnd<In, Out> {
    /// Deliver an item to the component's read side.
    pub fn push(&self, item: In) {
        let d = item.describe();
        let w = {
            let mut st = self.st.borrow_mut();
            if st.in_eof {
                return;
            }
            st.inbox.push_back(item);
            st.read_waker.take()
        };
        if let Some(sim) = cur() {
            let link = self.st.borrow().id;
            sim.log(EvKind::PeerPush { link, item: d });
        }
        if let Some(w) = w {
            w.wake();
        }
    }

    /// End the component's read side (after whatever is already queued).
    pub fn close_read(&self) {
        let w = {
            let mut st = self.st.borrow_mut();
            if st.in_eof {
                return;
            }
            st.in_eof = true;
            st.read_waker.take()
        };
        if let Some(sim) = cur() {
            let link = self.st.borrow().id;
            sim.log(EvKind::PeerEof { link });
        }
        if let Some(w) = w {
            w.wake();
        }
    }

    /// Take the next flushed item off the wire. `Ready(None)` once the writer closed or was
    /// dropped and the wire is drained.
    pub fn poll_take(&self, cx: &mut Context<'_>) -> Poll<Option<Out>> {
        let mut st = self.st.borrow_mut();
        if st.blocked {
            st.peer_waker = Some(cx.waker().clone());
            return Poll::Pending;
        }
        if let Some(x) = st.wire.pop_front() {
            let ww = if !st.cfg.coupled { st.write_waker.take() } else { None };
            let link = st.id;
            drop(st);
            if let Some(sim) = cur() {
                sim.log(EvKind::PeerTake {
                    link,
                    item: x.describe(),
                });
            }
            if let Some(w) = ww {
                w.wake();
            }
            return Poll::Ready(Some(x));
        }
        if st.write_closed || st.dropped {
            return Poll::Ready(None);
        }
        st.peer_waker = Some(cx.waker().clone());
        Poll::Pending
    }

    pub async fn take(&self) -> Option<Out> {
        futures::future::poll_fn(|cx| self.poll_take(cx)).await
    }

    /// Stall / un-stall the write side (peer not draining).
    pub fn set_blocked(&self, b: bool) {
        let (w1, w2) = {
            let mut st = self.st.borrow_mut();
            if b {
                st.block_depth += 1;
            } else {
                st.block_depth = st.block_depth.saturating_sub(1);
            }
            st.blocked = st.block_depth > 0;
            if st.blocked {
                (None, None)
            } else {
                (st.write_waker.take(), st.peer_waker.take())
            }
        };
        if let Some(w) = w1 {
            w.wake();
        }
        if let Some(w) = w2 {
            w.wake();
        }
    }
}

impl<In, Out> SimTransport<In, Out> {
    pub fn link(&self) -> Link<In, Out> {
        self.st.clone()
    }
}

// ---------------------------------------------------------------------------------------------
// Tap: monitor + fault injector around a real transport.

pub struct TapState {
    pub id: u8,
    pub side: &'static str,
    pub mon: Monitor,
    pub faults: Vec<FaultAt>,
    counts: BTreeMap<Op2, u32>,
    /// While set, the tap reports not-ready / flush-pending (socket-like stall).
    pub blocked: bool,
    pub coupled: bool,
    write_waker: Option<Waker>,
    pub sends: u64,
}

impl TapState {
    fn fault(&mut self, op: Op2) -> bool {
        let c = self.counts.entry(op).or_insert(0);
        *c += 1;
        let k = *c;
        self.faults.iter().any(|f| f.op == op && f.k == k)
    }
    pub fn set_blocked(st: &Rc<RefCell<TapState>>, b: bool) {
        let w = {
            let mut s = st.borrow_mut();
            s.blocked = b;
            if b {
                None
            } else {
                s.write_waker.take()
            }
        };
        if let Some(w) = w {
            w.wake();
        }
    }
}

pub struct Tap<T> {
    inner: T,
    pub st: Rc<RefCell<TapState>>,
}

impl<T> Tap<T> {
    pub fn new(inner: T, id: u8, side: &'static str, faults: Vec<FaultAt>) -> (Self, Rc<RefCell<TapState>>) {
        let st = Rc::new(RefCell::new(TapState {
            id,
            side,
            mon: Monitor::default(),
            faults,
            counts: BTreeMap::new(),
            blocked: false,
            coupled: true,
            write_waker: None,
            sends: 0,
        }));
        (Tap { inner, st: st.clone() }, st)
    }
}

impl<T: Unpin> Unpin for Tap<T> {}

impl<T, I, E> Stream for Tap<T>
where
    T: Stream<Item = Result<I, E>> + Unpin,
    I: Describe,
    E: std::error::Error + Send + Sync + 'static,
{
    type Item = Result<I, TapErr>;
    fn poll_next(mut self: Pin<&mut Self>, cx: &mut Context<'_>) -> Poll<Option<Self::Item>> {
        preempt("tap:next");
        let link = self.st.borrow().id;
        if self.st.borrow_mut().fault(Op2::Next) {
            self.st.borrow_mut().mon.read_failed = true;
            if let Some(s) = cur() {
                s.count("fault.err_next");
            }
            log_op(link, Op::Next, Res::Err, None);
            return Poll::Ready(Some(Err(TapErr::Injected("read"))));
        }
        match Pin::new(&mut self.inner).poll_next(cx) {
            Poll::Pending => {
                log_op(link, Op::Next, Res::Pending, None);
                Poll::Pending
            }
            Poll::Ready(None) => {
                log_op(link, Op::Next, Res::Eof, None);
                Poll::Ready(None)
            }
            Poll::Ready(Some(Ok(x))) => {
                log_op(link, Op::Next, Res::Ok, Some(x.describe()));
                Poll::Ready(Some(Ok(x)))
            }
            Poll::Ready(Some(Err(e))) => {
                log_op(link, Op::Next, Res::Err, None);
                Poll::Ready(Some(Err(TapErr::Inner(Box::new(e)))))
            }
        }
    }
}

#[derive(Debug)]
pub enum TapErr {
    Injected(&'static str),
    Inner(Box<dyn std::error::Error + Send + Sync>),
}
impl fmt::Display for TapErr {
    fn fmt(&self, f: &mut fmt::Formatter<'_>) -> fmt::Result {
        match self {
            TapErr::Injected(s) => write!(f, "injected {s} failure"),
            TapErr::Inner(e) => write!(f, "transport: {e}"),
        }
    }
}
impl std::error::Error for TapErr {}

impl<T, O, E> Sink<O> for Tap<T>
where
    T: Sink<O, Error = E> + Unpin,
    O: Describe,
    E: std::error::Error + Send + Sync + 'static,
{
    type Error = TapErr;

    fn poll_ready(mut self: Pin<&mut Self>, cx: &mut Context<'_>) -> Poll<Result<(), TapErr>> {
        preempt("tap:ready");
        let (link, side) = {
            let s = self.st.borrow();
            (s.id, s.side)
        };
        let injected = self.st.borrow_mut().fault(Op2::Ready);
        let (res, out) = if injected {
            if let Some(s) = cur() {
                s.count("fault.err_ready");
            }
            (Res::Err, Poll::Ready(Err(TapErr::Injected("readiness"))))
        } else if self.st.borrow().blocked {
            self.st.borrow_mut().write_waker = Some(cx.waker().clone());
            if let Some(s) = cur() {
                s.count("fault.not_ready");
            }
            (Res::Pending, Poll::Pending)
        } else {
            match Pin::new(&mut self.inner).poll_ready(cx) {
                Poll::Pending => (Res::Pending, Poll::Pending),
                Poll::Ready(Ok(())) => (Res::Ok, Poll::Ready(Ok(()))),
                Poll::Ready(Err(e)) => (Res::Err, Poll::Ready(Err(TapErr::Inner(Box::new(e))))),
            }
        };
        log_op(link, Op::Ready, res, None);
        self.st.borrow_mut().mon.on_ready(res, side);
        out
    }

    fn start_send(mut self: Pin<&mut Self>, item: O) -> Result<(), TapErr> {
        preempt("tap:send");
        let d = item.describe();
        let (link, side) = {
            let s = self.st.borrow();
            (s.id, s.side)
        };
        {
            let mut s = self.st.borrow_mut();
            s.sends += 1;
            s.mon.on_send(side, &d);
        }
        if self.st.borrow_mut().fault(Op2::Send) {
            if let Some(s) = cur() {
                s.count("fault.err_send");
            }
            log_op(link, Op::Send, Res::Err, Some(d));
            return Err(TapErr::Injected("write"));
        }
        match Pin::new(&mut self.inner).start_send(item) {
            Ok(()) => {
                log_op(link, Op::Send, Res::Ok, Some(d));
                Ok(())
            }
            Err(e) => {
                log_op(link, Op::Send, Res::Err, Some(d));
                Err(TapErr::Inner(Box::new(e)))
            }
        }
    }

    fn poll_flush(mut self: Pin<&mut Self>, cx: &mut Context<'_>) -> Poll<Result<(), TapErr>> {
        preempt("tap:flush");
        let link = self.st.borrow().id;
        let injected = self.st.borrow_mut().fault(Op2::Flush);
        let (res, out) = if injected {
            if let Some(s) = cur() {
                s.count("fault.err_flush");
            }
            (Res::Err, Poll::Ready(Err(TapErr::Injected("flush"))))
        } else if self.st.borrow().blocked && self.st.borrow().coupled && self.st.borrow().mon.unflushed > 0 {
            self.st.borrow_mut().write_waker = Some(cx.waker().clone());
            if let Some(s) = cur() {
                s.count("fault.flush_pending");
            }
            (Res::Pending, Poll::Pending)
        } else {
            match Pin::new(&mut self.inner).poll_flush(cx) {
                Poll::Pending => (Res::Pending, Poll::Pending),
                Poll::Ready(Ok(())) => (Res::Ok, Poll::Ready(Ok(()))),
                Poll::Ready(Err(e)) => (Res::Err, Poll::Ready(Err(TapErr::Inner(Box::new(e))))),
            }
        };
        self.st.borrow_mut().mon.on_flush(res);
        log_op(link, Op::Flush, res, None);
        out
    }

    fn poll_close(mut self: Pin<&mut Self>, cx: &mut Context<'_>) -> Poll<Result<(), TapErr>> {
        preempt("tap:close");
        let link = self.st.borrow().id;
        let injected = self.st.borrow_mut().fault(Op2::Close);
        let (res, out) = if injected {
            if let Some(s) = cur() {
                s.count("fault.err_close");
            }
            (Res::Err, Poll::Ready(Err(TapErr::Injected("close"))))
        } else {
            match Pin::new(&mut self.inner).poll_close(cx) {
                Poll::Pending => (Res::Pending, Poll::Pending),
                Poll::Ready(Ok(())) => (Res::Ok, Poll::Ready(Ok(()))),
                Poll::Ready(Err(e)) => (Res::Err, Poll::Ready(Err(TapErr::Inner(Box::new(e))))),
            }
        };
        self.st.borrow_mut().mon.on_close(res);
        log_op(link, Op::Close, res, None);
        out
    }
}
