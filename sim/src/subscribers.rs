//! Thread-local tracing subscribers used as a per-run knob (0 none, 1 fmt-to-sink, 2 OTel SDK).

use tracing_subscriber::layer::SubscriberExt;

pub struct Guard {
    _g: Option<tracing::subscriber::DefaultGuard>,
    _p: Option<opentelemetry_sdk::trace::TracerProvider>,
}

pub fn install(kind: u8) -> Guard {
    match kind {
        1 => {
            let sub = tracing_subscriber::fmt()
                .with_max_level(tracing::Level::TRACE)
                .with_writer(std::io::sink)
                .finish();
            Guard { _g: Some(tracing::subscriber::set_default(sub)), _p: None }
        }
        2 => {
            use opentelemetry::trace::TracerProvider as _;
            let provider = opentelemetry_sdk::trace::TracerProvider::builder().build();
            let tracer = provider.tracer("sim");
            let sub = tracing_subscriber::registry().with(tracing_opentelemetry::layer().with_tracer(tracer));
            Guard { _g: Some(tracing::subscriber::set_default(sub)), _p: Some(provider) }
        }
        _ => Guard { _g: None, _p: None },
    }
}
