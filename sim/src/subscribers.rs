//! Thread-local tracing subscribers used as a per-run knob (0 none, 1 fmt-to-sink, 2 OTel SDK).

use tracing_subscriber::layer::SubscriberExt;

pub struct Guard {
    _g: Option<tracing::subscriber::DefaultGuard>,
    _p: Option<opentelemetry_sdk::trace::TracerProvider>,
}

pub fn install(kind: u8) -> Guard {
    match kind {
        1 => {
            let sub = tracing_subscriber::fmt()
                .with_max_level(tracing::Level::TRACE)
                .with_writer(std::io::sink)
                .finish();
            Guard { _g: Some(tracing::subscriber::set_default(sub)), _p: None }
        }
        2 => {
            use opentelemetry::trace::TracerProvider as _;
            let provider = opentelemetry_sdk::trace::TracerProvider::builder()
                .with_config(opentelemetry_sdk::trace::Config::default().with_id_generator(SimIds))
                .build();
            let tracer = provider.tracer("sim");
            let sub = tracing_subscriber::registry().with(tracing_opentelemetry::layer().with_tracer(tracer));
            Guard { _g: Some(tracing::subscriber::set_default(sub)), _p: Some(provider) }
        }
        _ => Guard { _g: None, _p: None },
    }
}

/// OpenTelemetry ids from the simulator's deterministic id source.
#[derive(Debug)]
struct SimIds;

impl opentelemetry_sdk::trace::IdGenerator for SimIds {
    fn new_trace_id(&self) -> opentelemetry::trace::TraceId {
        let hi = crate::exec::next_id() as u128;
        let lo = crate::exec::next_id() as u128;
        opentelemetry::trace::TraceId::from_bytes(((hi << 64) | lo).to_be_bytes())
    }
    fn new_span_id(&self) -> opentelemetry::trace::SpanId {
        opentelemetry::trace::SpanId::from_bytes(crate::exec::next_id().to_be_bytes())
    }
}
