//! Tracing subscribers as a per-run knob (0 none, 1 fmt-to-sink, 2 OpenTelemetry SDK layer).
//!
//! tracing keeps process-global state (the callsite interest cache and the maximum level) that is
//! rebuilt whenever a dispatcher is created or dropped. With 16 worker threads creating scoped
//! dispatchers concurrently that state can momentarily disagree with a thread's own dispatcher
//! (observed: the server's RPC span created disabled although an OpenTelemetry layer was installed
//! on that thread, in one run out of ~10^5 — not reproducible single-threaded). So exactly one
//! dispatcher is registered, once, before any worker starts: a `Switch` that holds all three
//! behaviours and picks one per thread from a thread-local set for the duration of a run.

use std::any::TypeId;
use std::cell::Cell;
use tracing::span::{Attributes, Id, Record};
use tracing::subscriber::Interest;
use tracing::{Event, Metadata, Subscriber};
use tracing_subscriber::layer::SubscriberExt;

thread_local! {
    static KIND: Cell<u8> = const { Cell::new(0) };
}

pub struct Guard {
    prev: u8,
}

impl Drop for Guard {
    fn drop(&mut self) {
        KIND.with(|k| k.set(self.prev));
    }
}

/// Selects the subscriber behaviour of this thread until the guard is dropped.
pub fn install(kind: u8) -> Guard {
    let prev = KIND.with(|k| k.replace(if kind <= 2 { kind } else { 0 }));
    Guard { prev }
}

fn kind() -> u8 {
    KIND.with(|k| k.get())
}

type FmtSub = tracing_subscriber::fmt::Subscriber<
    tracing_subscriber::fmt::format::DefaultFields,
    tracing_subscriber::fmt::format::Format,
    tracing::level_filters::LevelFilter,
    fn() -> std::io::Sink,
>;
type OtelSub = tracing_subscriber::layer::Layered<
    tracing_opentelemetry::OpenTelemetryLayer<tracing_subscriber::Registry, opentelemetry_sdk::trace::Tracer>,
    tracing_subscriber::Registry,
>;

struct Switch {
    fmt: FmtSub,
    otel: OtelSub,
    _provider: opentelemetry_sdk::trace::TracerProvider,
}

impl Subscriber for Switch {
    fn register_callsite(&self, _m: &'static Metadata<'static>) -> Interest {
        // always ask `enabled`, which consults the calling thread's kind
        Interest::sometimes()
    }
    fn enabled(&self, m: &Metadata<'_>) -> bool {
        match kind() {
            1 => self.fmt.enabled(m),
            2 => self.otel.enabled(m),
            _ => false,
        }
    }
    fn max_level_hint(&self) -> Option<tracing::level_filters::LevelFilter> {
        Some(tracing::level_filters::LevelFilter::TRACE)
    }
    fn new_span(&self, a: &Attributes<'_>) -> Id {
        match kind() {
            1 => self.fmt.new_span(a),
            2 => self.otel.new_span(a),
            _ => Id::from_u64(u64::MAX),
        }
    }
    fn record(&self, s: &Id, v: &Record<'_>) {
        match kind() {
            1 => self.fmt.record(s, v),
            2 => self.otel.record(s, v),
            _ => {}
        }
    }
    fn record_follows_from(&self, s: &Id, f: &Id) {
        match kind() {
            1 => self.fmt.record_follows_from(s, f),
            2 => self.otel.record_follows_from(s, f),
            _ => {}
        }
    }
    fn event_enabled(&self, e: &Event<'_>) -> bool {
        match kind() {
            1 => self.fmt.event_enabled(e),
            2 => self.otel.event_enabled(e),
            _ => false,
        }
    }
    fn event(&self, e: &Event<'_>) {
        match kind() {
            1 => self.fmt.event(e),
            2 => self.otel.event(e),
            _ => {}
        }
    }
    fn enter(&self, s: &Id) {
        match kind() {
            1 => self.fmt.enter(s),
            2 => self.otel.enter(s),
            _ => {}
        }
    }
    fn exit(&self, s: &Id) {
        match kind() {
            1 => self.fmt.exit(s),
            2 => self.otel.exit(s),
            _ => {}
        }
    }
    fn clone_span(&self, s: &Id) -> Id {
        match kind() {
            1 => self.fmt.clone_span(s),
            2 => self.otel.clone_span(s),
            _ => s.clone(),
        }
    }
    fn try_close(&self, s: Id) -> bool {
        match kind() {
            1 => self.fmt.try_close(s),
            2 => self.otel.try_close(s),
            _ => false,
        }
    }
    fn current_span(&self) -> tracing_core::span::Current {
        match kind() {
            1 => self.fmt.current_span(),
            2 => self.otel.current_span(),
            _ => tracing_core::span::Current::none(),
        }
    }
    unsafe fn downcast_raw(&self, id: TypeId) -> Option<*const ()> {
        if id == TypeId::of::<Self>() {
            return Some(self as *const Self as *const ());
        }
        match kind() {
            // SAFETY: forwarded to the inner subscriber, which upholds the contract itself
            1 => unsafe { self.fmt.downcast_raw(id) },
            2 => unsafe { self.otel.downcast_raw(id) },
            _ => None,
        }
    }
}

fn sink() -> std::io::Sink {
    std::io::sink()
}

/// Registers the one process-wide dispatcher. Call once, before any worker thread starts.
pub fn init_global() {
    use opentelemetry::trace::TracerProvider as _;
    let fmt: FmtSub = tracing_subscriber::fmt()
        .with_max_level(tracing::Level::TRACE)
        .with_writer(sink as fn() -> std::io::Sink)
        .finish();
    let provider = opentelemetry_sdk::trace::TracerProvider::builder()
        .with_config(opentelemetry_sdk::trace::Config::default().with_id_generator(SimIds))
        .build();
    let tracer = provider.tracer("sim");
    let otel: OtelSub = tracing_subscriber::registry().with(tracing_opentelemetry::layer().with_tracer(tracer));
    let _ = tracing::subscriber::set_global_default(Switch { fmt, otel, _provider: provider });
}

/// OpenTelemetry ids from the simulator's deterministic id source.
#[derive(Debug)]
struct SimIds;

impl opentelemetry_sdk::trace::IdGenerator for SimIds {
    fn new_trace_id(&self) -> opentelemetry::trace::TraceId {
        let hi = crate::exec::next_id() as u128;
        let lo = crate::exec::next_id() as u128;
        opentelemetry::trace::TraceId::from_bytes(((hi << 64) | lo).to_be_bytes())
    }
    fn new_span_id(&self) -> opentelemetry::trace::SpanId {
        opentelemetry::trace::SpanId::from_bytes(crate::exec::next_id().to_be_bytes())
    }
}
