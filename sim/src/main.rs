//! tarpc-sim: deterministic simulation of google/tarpc with fault injection.
//! See /verif/DESIGN.md.

pub mod engine;
pub mod exec;
pub mod hist;
pub mod pipe;
pub mod profiles;
pub mod subscribers;
pub mod tape;
pub mod transport;

use std::collections::BTreeMap;

#[derive(Clone, Debug, serde::Serialize)]
pub struct Violation {
    pub prop: &'static str,
    pub rule: String,
    pub tags: Vec<String>,
    pub detail: String,
}

pub struct RunOutput {
    pub violations: Vec<Violation>,
    pub counters: BTreeMap<&'static str, u64>,
    pub polls: u64,
    pub sim_ms: i64,
    pub sig: u64,
    pub full_hash: u64,
    pub overrun: bool,
    pub tape: tape::Tape,
    pub log_text: String,
    pub events: usize,
}

pub fn finish_output(
    sim: &exec::Sim,
    violations: Vec<Violation>,
    end: &exec::RunEnd,
    _profile: &'static str,
) -> RunOutput {
    let tape = sim.take_tape();
    let overrun = sim.overrun.get() || tape.exhausted;
    let log = sim.log.borrow();
    let want_text = !violations.is_empty() || engine::want_log();
    RunOutput {
        violations,
        counters: sim.counters.borrow().clone(),
        polls: sim.polls(),
        sim_ms: end.end_ms,
        sig: sim.sig(),
        full_hash: sim.full_hash(),
        overrun,
        tape,
        log_text: if want_text {
            hist::render(&log, &sim.names.borrow())
        } else {
            String::new()
        },
        events: log.len(),
    }
}

/// Coarse class of a panic message (stable across line-number changes), used as a tag.
pub fn panic_class(msg: &str) -> &'static str {
    if msg.contains("invalid deadline") {
        "timer-range"
    } else if msg.contains("formatting trait implementation returned an error") {
        "span-field-format"
    } else if msg.contains("overflow when adding duration") || msg.contains("overflow when subtracting duration") {
        "time-overflow"
    } else if msg.contains("failed printing to") || msg.contains("failed to write") {
        "subscriber-write"
    } else {
        "other"
    }
}

fn main() {
    exec::install_panic_hook();
    subscribers::init_global();
    let args: Vec<String> = std::env::args().skip(1).collect();
    let code = engine::cli(&args);
    std::process::exit(code);
}
