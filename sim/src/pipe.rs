//! SimPipe: an in-memory duplex byte stream (`AsyncRead + AsyncWrite`) whose fragmentation,
//! stalls and faults are decided by the tape.

use crate::exec::cur;
use std::cell::RefCell;
use std::collections::VecDeque;
use std::io;
use std::pin::Pin;
use std::rc::Rc;
use std::task::{Context, Poll, Waker};
use tokio::io::{AsyncRead, AsyncWrite, ReadBuf};

#[derive(Clone, Debug, serde::Serialize, serde::Deserialize)]
pub struct PipeCfg {
    /// ‰ of reads/writes that return Pending (and are woken right away).
    pub pending_permille: u32,
    /// ‰ of reads/writes that are cut short to a tape-chosen length.
    pub partial_permille: u32,
    /// Maximum bytes buffered per direction (0 = unbounded).
    pub cap: usize,
    /// When set, every read returns at most this many bytes (1 = byte-by-byte).
    pub max_read: usize,
    /// Virtual one-way latency in ms applied to each written chunk.
    pub latency_ms: u64,
}

impl Default for PipeCfg {
    fn default() -> Self {
        PipeCfg { pending_permille: 0, partial_permille: 0, cap: 0, max_read: 0, latency_ms: 0 }
    }
}

#[derive(Default)]
pub struct Dir {
    buf: VecDeque<u8>,
    /// chunks in flight (latency): (deliver_at_ms, bytes)
    in_flight: VecDeque<(i64, Vec<u8>)>,
    pub write_closed: bool,
    pub fail_reads: bool,
    read_waker: Option<Waker>,
    write_waker: Option<Waker>,
    pub total_written: u64,
    pub total_read: u64,
    pub first_write_ms: Option<i64>,
    pub last_read_ms: Option<i64>,
}

pub type DirRef = Rc<RefCell<Dir>>;

pub struct End {
    pub rd: DirRef,
    pub wr: DirRef,
    cfg: PipeCfg,
    name: &'static str,
}

pub fn pipe(cfg: PipeCfg) -> (End, End) {
    let a = Rc::new(RefCell::new(Dir::default()));
    let b = Rc::new(RefCell::new(Dir::default()));
    (
        End { rd: a.clone(), wr: b.clone(), cfg: cfg.clone(), name: "a" },
        End { rd: b, wr: a, cfg, name: "b" },
    )
}

fn draw(n: u32) -> u32 {
    cur().map(|s| s.draw(n)).unwrap_or(0)
}
fn chance(p: u32) -> bool {
    p > 0 && cur().map(|s| s.chance(p)).unwrap_or(false)
}
fn count(what: &'static str) {
    if let Some(s) = cur() {
        s.count(what);
    }
}
fn now_ms() -> i64 {
    cur().map(|s| s.now_ms()).unwrap_or(0)
}

/// Move chunks whose latency elapsed into the readable buffer. Returns the earliest pending
/// delivery time, if any.
fn deliver(d: &mut Dir) -> Option<i64> {
    let now = now_ms();
    while let Some((at, _)) = d.in_flight.front() {
        if *at <= now {
            let (_, bytes) = d.in_flight.pop_front().unwrap();
            d.buf.extend(bytes);
        } else {
            return Some(*at);
        }
    }
    None
}

/// Write raw bytes into a direction from outside (adversary).
pub fn inject(dir: &DirRef, bytes: &[u8]) {
    let w = {
        let mut d = dir.borrow_mut();
        // keep byte order with respect to chunks still in flight
        if let Some((at, _)) = d.in_flight.back() {
            let at = *at;
            d.in_flight.push_back((at, bytes.to_vec()));
        } else {
            d.buf.extend(bytes.iter().copied());
        }
        d.total_written += bytes.len() as u64;
        d.read_waker.take()
    };
    if let Some(w) = w {
        w.wake();
    }
}

pub fn close_write(dir: &DirRef) {
    let w = {
        let mut d = dir.borrow_mut();
        d.write_closed = true;
        d.read_waker.take()
    };
    if let Some(w) = w {
        w.wake();
    }
}

impl Drop for End {
    fn drop(&mut self) {
        close_write(&self.wr);
        // the peer's writes now go nowhere; wake a blocked writer so it can observe that
        let w = self.rd.borrow_mut().write_waker.take();
        if let Some(w) = w {
            w.wake();
        }
    }
}

impl AsyncRead for End {
    fn poll_read(self: Pin<&mut Self>, cx: &mut Context<'_>, out: &mut ReadBuf<'_>) -> Poll<io::Result<()>> {
        crate::exec::preempt("pipe:read");
        if chance(self.cfg.pending_permille) {
            count("fault.pipe_read_pending");
            cx.waker().wake_by_ref();
            return Poll::Pending;
        }
        let mut d = self.rd.borrow_mut();
        if d.fail_reads {
            return Poll::Ready(Err(io::Error::new(io::ErrorKind::ConnectionReset, "injected read failure")));
        }
        let next_at = deliver(&mut d);
        if d.buf.is_empty() {
            if d.write_closed && d.in_flight.is_empty() {
                return Poll::Ready(Ok(()));
            }
            d.read_waker = Some(cx.waker().clone());
            if let Some(at) = next_at {
                // wake ourselves when the in-flight chunk lands
                let waker = cx.waker().clone();
                let delay = (at - now_ms()).max(0) as u64;
                if let Some(sim) = cur() {
                    sim.spawn_bg("pipe_latency", async move {
                        tokio::time::sleep(std::time::Duration::from_millis(delay)).await;
                        waker.wake();
                    });
                }
            }
            return Poll::Pending;
        }
        let mut n = d.buf.len().min(out.remaining());
        if self.cfg.max_read > 0 {
            n = n.min(self.cfg.max_read);
        }
        if n > 1 && chance(self.cfg.partial_permille) {
            n = 1 + draw(n as u32 - 1) as usize;
            count("fault.pipe_partial_read");
        }
        for _ in 0..n {
            let b = d.buf.pop_front().unwrap();
            out.put_slice(&[b]);
        }
        d.total_read += n as u64;
        d.last_read_ms = Some(now_ms());
        let ww = d.write_waker.take();
        drop(d);
        if let Some(w) = ww {
            w.wake();
        }
        let _ = self.name;
        Poll::Ready(Ok(()))
    }
}

impl AsyncWrite for End {
    fn poll_write(self: Pin<&mut Self>, cx: &mut Context<'_>, data: &[u8]) -> Poll<io::Result<usize>> {
        crate::exec::preempt("pipe:write");
        if data.is_empty() {
            return Poll::Ready(Ok(0));
        }
        if chance(self.cfg.pending_permille) {
            count("fault.pipe_write_pending");
            cx.waker().wake_by_ref();
            return Poll::Pending;
        }
        let mut d = self.wr.borrow_mut();
        let mut n = data.len();
        if self.cfg.cap > 0 {
            let queued = d.buf.len() + d.in_flight.iter().map(|c| c.1.len()).sum::<usize>();
            let room = self.cfg.cap.saturating_sub(queued);
            if room == 0 {
                d.write_waker = Some(cx.waker().clone());
                count("fault.pipe_full");
                return Poll::Pending;
            }
            n = n.min(room);
        }
        if n > 1 && chance(self.cfg.partial_permille) {
            n = 1 + draw(n as u32 - 1) as usize;
            count("fault.pipe_partial_write");
        }
        if d.first_write_ms.is_none() {
            d.first_write_ms = Some(now_ms());
        }
        if self.cfg.latency_ms > 0 {
            let at = now_ms() + self.cfg.latency_ms as i64;
            d.in_flight.push_back((at, data[..n].to_vec()));
        } else {
            d.buf.extend(data[..n].iter().copied());
        }
        d.total_written += n as u64;
        let rw = d.read_waker.take();
        drop(d);
        if let Some(w) = rw {
            w.wake();
        }
        Poll::Ready(Ok(n))
    }

    fn poll_flush(self: Pin<&mut Self>, cx: &mut Context<'_>) -> Poll<io::Result<()>> {
        if chance(self.cfg.pending_permille / 2) {
            count("fault.pipe_flush_pending");
            cx.waker().wake_by_ref();
            return Poll::Pending;
        }
        Poll::Ready(Ok(()))
    }

    fn poll_shutdown(self: Pin<&mut Self>, _cx: &mut Context<'_>) -> Poll<io::Result<()>> {
        close_write(&self.wr);
        Poll::Ready(Ok(()))
    }
}

/// Fault-free read from a direction (used by scripted peers that work on raw bytes).
pub fn plain_read(dir: &DirRef, cx: &mut Context<'_>, out: &mut ReadBuf<'_>) -> Poll<io::Result<()>> {
    let mut d = dir.borrow_mut();
    let next_at = deliver(&mut d);
    if d.buf.is_empty() {
        if d.write_closed && d.in_flight.is_empty() {
            return Poll::Ready(Ok(()));
        }
        d.read_waker = Some(cx.waker().clone());
        if let Some(at) = next_at {
            let waker = cx.waker().clone();
            let delay = (at - now_ms()).max(0) as u64;
            if let Some(sim) = cur() {
                sim.spawn_bg("pipe_latency", async move {
                    tokio::time::sleep(std::time::Duration::from_millis(delay)).await;
                    waker.wake();
                });
            }
        }
        return Poll::Pending;
    }
    let n = d.buf.len().min(out.remaining());
    for _ in 0..n {
        let b = d.buf.pop_front().unwrap();
        out.put_slice(&[b]);
    }
    d.total_read += n as u64;
    let ww = d.write_waker.take();
    drop(d);
    if let Some(w) = ww {
        w.wake();
    }
    Poll::Ready(Ok(()))
}
