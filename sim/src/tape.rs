//! One integer decides everything: a splitmix64 PRNG, and the choice tape that records every
//! decision a run takes so that `run(scenario, tape)` is a pure function.

use serde::{Deserialize, Serialize};

#[derive(Clone, Debug)]
pub struct Rng(pub u64);

pub fn splitmix(x: u64) -> u64 {
    let mut z = x.wrapping_add(0x9E37_79B9_7F4A_7C15);
    z = (z ^ (z >> 30)).wrapping_mul(0xBF58_476D_1CE4_E5B9);
    z = (z ^ (z >> 27)).wrapping_mul(0x94D0_49BB_1331_11EB);
    z ^ (z >> 31)
}

pub fn mix(a: u64, b: u64) -> u64 {
    splitmix(a ^ splitmix(b.wrapping_add(0x51_7C_C1_B7_27_22_0A_95)))
}

impl Rng {
    pub fn new(seed: u64) -> Self {
        Rng(splitmix(seed ^ 0xD1B5_4A32_D192_ED03))
    }
    pub fn next(&mut self) -> u64 {
        self.0 = self.0.wrapping_add(0x9E37_79B9_7F4A_7C15);
        let mut z = self.0;
        z = (z ^ (z >> 30)).wrapping_mul(0xBF58_476D_1CE4_E5B9);
        z = (z ^ (z >> 27)).wrapping_mul(0x94D0_49BB_1331_11EB);
        z ^ (z >> 31)
    }
    /// Uniform in 0..n (n > 0).
    pub fn below(&mut self, n: u64) -> u64 {
        if n <= 1 {
            0
        } else {
            self.next() % n
        }
    }
    pub fn range(&mut self, lo: u64, hi_incl: u64) -> u64 {
        lo + self.below(hi_incl - lo + 1)
    }
    pub fn chance(&mut self, permille: u64) -> bool {
        self.below(1000) < permille
    }
    pub fn pick<'a, T>(&mut self, xs: &'a [T]) -> &'a T {
        &xs[self.below(xs.len() as u64) as usize]
    }
}

/// Recorded scheduling / latency / coin-flip decisions of one run.
#[derive(Clone, Debug, Serialize, Deserialize, Default)]
pub struct Tape {
    /// Recorded draws (record mode appends, replay mode reads).
    pub draws: Vec<u32>,
    #[serde(skip)]
    pos: usize,
    #[serde(skip)]
    rng: Option<Rng>,
    #[serde(skip)]
    pub exhausted: bool,
}

pub const MAX_DRAWS: usize = 200_000;

impl Tape {
    pub fn record(seed: u64) -> Self {
        Tape {
            draws: Vec::new(),
            pos: 0,
            rng: Some(Rng::new(seed)),
            exhausted: false,
        }
    }
    pub fn replay(draws: Vec<u32>) -> Self {
        Tape {
            draws,
            pos: 0,
            rng: None,
            exhausted: false,
        }
    }
    /// Uniform-ish value in 0..n. Record mode: from the PRNG, appended. Replay mode: read back
    /// (reduced modulo n, 0 when the tape is exhausted).
    pub fn draw(&mut self, n: u32) -> u32 {
        if n <= 1 {
            return 0;
        }
        match &mut self.rng {
            Some(r) => {
                let v = (r.next() % n as u64) as u32;
                if self.draws.len() < MAX_DRAWS {
                    self.draws.push(v);
                } else {
                    self.exhausted = true;
                }
                v
            }
            None => {
                let v = if self.pos < self.draws.len() {
                    self.draws[self.pos] % n
                } else {
                    0
                };
                self.pos += 1;
                v
            }
        }
    }
    pub fn chance(&mut self, permille: u32) -> bool {
        if permille == 0 {
            return false;
        }
        self.draw(1000) < permille
    }
    pub fn used(&self) -> usize {
        if self.rng.is_some() {
            self.draws.len()
        } else {
            self.pos.min(self.draws.len())
        }
    }
}
