//! P-client: the real client (`client::new`, `Channel::call`, `RequestDispatch`, in-flight
//! table, cancellations, DelayQueue) over a `SimTransport` with a scripted server peer.

use crate::exec::{run_sim, IdleAct, Knobs, Sim};
use crate::hist::{Ev, EvKind, Item, Op, Outcome, Res};
use crate::tape::{Rng, Tape};
use crate::transport::{sim_link, LinkCfg, PeerEnd};
use crate::{RunOutput, Violation};
use futures::future::poll_fn;
use futures::Future;
use serde::{Deserialize, Serialize};
use std::cell::{Cell, RefCell};
use std::collections::{BTreeMap, BTreeSet, HashMap};
use std::pin::Pin;
use std::rc::Rc;
use std::task::{Poll, Waker};
use std::time::Duration;
use tarpc::client::{self, RpcError};
use tarpc::{context, trace, ClientMessage, Response, ServerError};

type Chan = client::Channel<u64, u64>;

#[derive(Clone, Debug, Serialize, Deserialize, PartialEq)]
pub enum Ab {
    BeforePoll,
    AfterPolls(u32),
    AtMs(u64),
    /// 2 = request on the wire, 3 = a reply queued for the dispatch, 4 = reply read by dispatch
    AtStage(u8),
}

#[derive(Clone, Debug, Serialize, Deserialize, PartialEq)]
pub enum Dl {
    /// Milliseconds relative to the call's start (negative: already expired).
    Ms(i64),
    /// Seconds relative to the call's start; for boundary values that may not be representable.
    Secs(u64),
    /// Seconds + extra nanos.
    SecsNanos(u64, u32),
}

#[derive(Clone, Debug, Serialize, Deserialize)]
pub struct CallScn {
    pub handle: usize,
    pub start_ms: u64,
    pub deadline: Dl,
    /// Seed of the caller-supplied 128-bit trace id (see `trace128`).
    pub trace: u64,
    pub sampled: bool,
    pub abandon: Option<Ab>,
}

#[derive(Clone, Debug, Serialize, Deserialize, PartialEq)]
pub enum When {
    Now,
    After(u64),
    /// Offset (ms) from the request's deadline.
    AtDeadline(i64),
}

#[derive(Clone, Debug, Serialize, Deserialize, PartialEq)]
pub enum IdKind {
    Same,
    Finished,
    Unknown,
    Zero,
    Max,
    Next,
    /// the request's id with bit 32 set (equal modulo 2^32)
    High32,
    /// the request's id with the top bit flipped
    Top,
}

#[derive(Clone, Debug, Serialize, Deserialize)]
pub struct ReplyScn {
    pub when: When,
    pub id: IdKind,
    pub err: bool,
}

#[derive(Clone, Debug, Serialize, Deserialize)]
pub struct ClientScn {
    pub max_in_flight: usize,
    pub pending_buf: usize,
    pub link: LinkCfg,
    pub stalls: Vec<(u64, u64)>,
    pub handles: usize,
    pub calls: Vec<CallScn>,
    pub plans: Vec<Vec<ReplyScn>>,
    pub unsolicited: Vec<(u64, u64)>,
    pub drop_handles_at: Option<u64>,
    pub kill_dispatch_at: Option<u64>,
    pub peer_eof_at: Option<u64>,
    pub preempt_permille: u32,
    pub spurious_permille: u32,
    /// The dispatch is handed a fresh waker on every poll and only the latest one schedules it.
    #[serde(default)]
    pub waker_churn: bool,
    /// 0 none, 1 fmt-to-sink, 2 OpenTelemetry SDK layer
    pub subscriber: u8,
    /// Run for simulated years (deadlines beyond a single timer's span).
    #[serde(default)]
    pub long: bool,
    /// Clock jumps (a stalled process / stepped clock): at virtual ms `.0` the clock is advanced by
    /// `.1` ms at once, so several timers and deliveries become due together.
    #[serde(default)]
    pub jumps: Vec<(u64, u64)>,
}

/// 780 days: below the 2^36 ms (795 days) range of a tokio timer; a paused runtime does not
/// advance correctly past a sleep registered beyond that range (probed outside tarpc).
pub const LONG_HORIZON_MS: u64 = 780 * 86_400_000;

impl ClientScn {
    pub fn valid(&self) -> bool {
        self.max_in_flight >= 1
            && self.pending_buf >= 1
            && self.handles >= 1
            && self.calls.iter().all(|c| c.handle < self.handles)
            && self.preempt_permille <= 1000
    }
}

#[derive(Clone, Copy, Debug, PartialEq, Eq)]
pub enum Focus {
    General,
    Deadlines,
    Abandon,
    Faults,
    Shutdown,
    Extreme,
    Independent,
    Trace,
    /// only long-horizon runs (deadlines 400 days .. 10 years, never answered)
    Long,
}

/// Hundreds of calls in flight at once, most answered early, about a hundred kept waiting; then
/// one more call is made while those are still outstanding, and finally they are answered: the
/// in-flight table grows past whatever its housekeeping thresholds are, shrinks far below them,
/// and is used again before the rest is answered.
fn gen_mega(rng: &mut Rng) -> ClientScn {
    let n = rng.range(540, 720) as usize;
    let survivors = rng.range(60, 110) as usize;
    let late = rng.range(1, 4) as usize;
    let mut calls = Vec::new();
    let mut plans = Vec::new();
    for i in 0..n + late {
        calls.push(CallScn {
            handle: 0,
            start_ms: if i < n { 0 } else { 20 + (i - n) as u64 },
            deadline: Dl::Ms(10_000),
            trace: rng.next() | 1,
            sampled: false,
            abandon: None,
        });
        // the k-th request to reach the peer
        let when = if i < n - survivors { When::After(rng.range(2, 6)) } else if i < n { When::After(60) } else { When::After(2) };
        plans.push(vec![ReplyScn { when, id: IdKind::Same, err: false }]);
    }
    ClientScn {
        max_in_flight: 1000,
        pending_buf: *rng.pick(&[100usize, 1000]),
        link: LinkCfg { cap: 0, coupled: true, sticky: true, faults: vec![], explicit_flush: false },
        stalls: vec![],
        handles: 1,
        calls,
        plans,
        unsolicited: vec![],
        drop_handles_at: None,
        kill_dispatch_at: None,
        peer_eof_at: None,
        subscriber: 0,
        long: false,
        jumps: vec![],
        preempt_permille: 0,
        spurious_permille: 0,
        waker_churn: false,
    }
}

pub fn gen(rng: &mut Rng, focus: Focus) -> ClientScn {
    if focus == Focus::General && rng.chance(2) {
        return gen_mega(rng);
    }
    // a burst: dozens of calls queued before the dispatch first runs, with room for all of them
    // (one poll of the dispatch then has dozens of things to do)
    let burst = focus == Focus::General && rng.chance(30);
    // ... sometimes followed by tearing the whole client down at once: every call future dropped
    // and then the last handle, with dozens of requests in flight
    let teardown_burst = burst && rng.chance(300);
    // ... or answered out of order around a head-of-line straggler: the first call(s) get their
    // reply long after dozens of later ones
    let straggler_burst = burst && !teardown_burst && rng.chance(400);
    let n_calls = if teardown_burst {
        rng.range(64, 140) as usize
    } else if straggler_burst {
        rng.range(66, 140) as usize
    } else if burst {
        rng.range(33, 70) as usize
    } else {
        rng.range(1, 8) as usize
    };
    let handles = rng.range(1, 3) as usize;
    let small = [1usize, 2, 3];
    let max_in_flight = if burst {
        *rng.pick(&[1000usize, 1000, 40, 16])
    } else if rng.chance(600) {
        *rng.pick(&small)
    } else {
        1000
    };
    let pending_buf = if !burst && rng.chance(600) { *rng.pick(&small) } else { 100 };
    let cap = if !burst && rng.chance(650) { *rng.pick(&small) } else { 0 };
    let coupled = focus != Focus::Independent;
    let concurrent = burst || rng.chance(700);
    let mut calls = Vec::new();
    for _ in 0..n_calls {
        let dl = match focus {
            Focus::Extreme => match rng.below(10) {
                0 => Dl::Secs(u64::MAX),
                1 => Dl::Secs(u64::MAX / 2),
                2 => Dl::Ms((1i64 << 36) + 1),
                3 => Dl::Ms((1i64 << 36) - 1),
                4 => Dl::Secs(100 * 365 * 86400),
                5 => Dl::Secs(8000 * 365 * 86400),
                6 => Dl::SecsNanos(1u64 << 40, 999_999_999),
                7 => Dl::Ms(0),
                _ => Dl::Ms(1000),
            },
            Focus::Deadlines => Dl::Ms(*rng.pick(&[-5i64, 0, 1, 2, 5, 5, 20, 50, 1000])),
            _ => Dl::Ms(*rng.pick(&[-5i64, 0, 1, 5, 50, 50, 1000, 1000, 10_000, 3_600_000])),
        };
        let ab_p = match focus {
            Focus::Abandon | Focus::Trace => 600,
            Focus::Deadlines => 100,
            _ => 300,
        };
        let abandon = if rng.chance(ab_p) {
            Some(match rng.below(7) {
                0 => Ab::BeforePoll,
                1 => Ab::AfterPolls(1),
                2 => Ab::AfterPolls(rng.range(1, 3) as u32),
                3 => Ab::AtMs(rng.range(0, 12)),
                4 => Ab::AtStage(2),
                5 => Ab::AtStage(3),
                _ => Ab::AtStage(4),
            })
        } else {
            None
        };
        calls.push(CallScn {
            handle: rng.below(handles as u64) as usize,
            start_ms: if concurrent { 0 } else { rng.range(0, 20) },
            deadline: dl,
            trace: rng.next() | 1,
            sampled: rng.chance(500),
            abandon,
        });
    }
    let mut plans = Vec::new();
    for _ in 0..n_calls {
        let mut plan = Vec::new();
        let kind = rng.below(100);
        let when = |rng: &mut Rng| match focus {
            Focus::Deadlines => match rng.below(6) {
                0 => When::Now,
                1 => When::After(rng.range(0, 6)),
                2 => When::AtDeadline(-2),
                3 => When::AtDeadline(-1),
                4 => When::AtDeadline(0),
                _ => When::AtDeadline(1),
            },
            _ => match rng.below(10) {
                0..=3 => When::Now,
                4..=7 => When::After(rng.range(0, 10)),
                8 => When::AtDeadline(-1),
                _ => When::AtDeadline(1),
            },
        };
        let err_p = 150;
        if kind < 55 {
            plan.push(ReplyScn { when: when(rng), id: IdKind::Same, err: rng.chance(err_p) });
        } else if kind < 65 {
            // never answered
        } else if kind < 80 {
            plan.push(ReplyScn { when: when(rng), id: IdKind::Same, err: rng.chance(err_p) });
            plan.push(ReplyScn { when: when(rng), id: IdKind::Same, err: rng.chance(err_p) });
        } else {
            let stray = match rng.below(7) {
                0 => IdKind::Finished,
                1 => IdKind::Unknown,
                2 => IdKind::Zero,
                3 => IdKind::Max,
                4 => IdKind::High32,
                5 => IdKind::Top,
                _ => IdKind::Next,
            };
            let first_stray = rng.chance(500);
            if first_stray {
                plan.push(ReplyScn { when: when(rng), id: stray.clone(), err: rng.chance(err_p) });
            }
            if rng.chance(800) {
                plan.push(ReplyScn { when: when(rng), id: IdKind::Same, err: rng.chance(err_p) });
            }
            if !first_stray {
                plan.push(ReplyScn { when: when(rng), id: stray, err: rng.chance(err_p) });
            }
        }
        plans.push(plan);
    }
    let mut stalls = Vec::new();
    if rng.chance(match focus {
        Focus::Independent => 700,
        _ => 350,
    }) {
        for _ in 0..rng.range(1, 2) {
            stalls.push((rng.range(0, 15), rng.range(1, 30)));
        }
    }
    if focus == Focus::Deadlines && rng.chance(60) {
        // a sink that stops accepting writes for good: deadlines must still be enforced
        stalls.push((rng.range(0, 6), 50_000_000));
    }
    let mut unsolicited = Vec::new();
    if rng.chance(150) {
        for _ in 0..rng.range(1, 3) {
            unsolicited.push((rng.range(0, 20), *rng.pick(&[0u64, 1, 2, 5, u64::MAX])));
        }
    }
    let (mut drop_handles_at, mut kill_dispatch_at, mut peer_eof_at) = (None, None, None);
    match focus {
        Focus::Shutdown => match rng.below(4) {
            0 | 1 => drop_handles_at = Some(rng.range(0, 15)),
            2 => peer_eof_at = Some(rng.range(0, 15)),
            _ => {}
        },
        _ => {
            if rng.chance(100) {
                drop_handles_at = Some(rng.range(0, 25));
            }
            if rng.chance(40) {
                kill_dispatch_at = Some(rng.range(0, 25));
            }
            if rng.chance(80) {
                peer_eof_at = Some(rng.range(0, 25));
            }
        }
    }
    if straggler_burst {
        let stragglers = rng.range(1, 3) as usize;
        let skip_answer = rng.range(0, 3) as usize; // a few later calls are never answered
        for (i, c) in calls.iter_mut().enumerate() {
            c.abandon = None;
            c.deadline = Dl::Ms(10_000);
            c.start_ms = 0;
            let _ = i;
        }
        for (i, p) in plans.iter_mut().enumerate() {
            *p = if i < stragglers {
                vec![ReplyScn { when: When::After(rng.range(25, 40)), id: IdKind::Same, err: false }]
            } else if i + skip_answer >= n_calls {
                vec![]
            } else {
                vec![ReplyScn { when: When::After(rng.range(0, 12)), id: IdKind::Same, err: rng.chance(100) }]
            };
        }
        stalls.clear();
        drop_handles_at = None;
        kill_dispatch_at = None;
        peer_eof_at = None;
    }
    if teardown_burst {
        // everything is dropped within the same millisecond: all call futures, then the handles
        let at = rng.range(2, 6);
        for c in calls.iter_mut() {
            c.abandon = Some(Ab::AtMs(at.saturating_sub(c.start_ms)));
            c.deadline = Dl::Ms(10_000);
        }
        stalls.clear();
        // (the harness lets go of its own handles a moment earlier, so that the last call
        // future to go is also the last handle)
        drop_handles_at = Some(at - 1);
        kill_dispatch_at = None;
        peer_eof_at = None;
    }
    let subscriber = match focus {
        Focus::Extreme => rng.below(3) as u8,
        // a log-only (formatting) subscriber: spans are enabled but not backed by OpenTelemetry
        Focus::Trace => *rng.pick(&[0u8, 0, 1]),
        _ => 0,
    };
    let long = (focus == Focus::Extreme && rng.chance(250)) || focus == Focus::Long;
    if long {
        // a few never-answered calls whose deadlines lie years ahead
        calls.truncate(2);
        for c in calls.iter_mut() {
            c.deadline = Dl::Secs(*rng.pick(&[365u64, 400, 400, 700, 1278, 1500, 3650]) * 86_400);
            // a long call may be abandoned too: long after it started, or at the very instant one
            // of its year-long timers fires
            c.abandon = if rng.chance(250) { Some(Ab::AtMs(*rng.pick(&[100u64, 365, 365, 366, 400, 730]) * 86_400_000)) } else { None };
            // a call may also be the first thing that happens on a connection that has been
            // quiet for months (nothing has advanced the timer queue), or arrive while an
            // earlier call's timer has been pending for more than a year
            // (365 / 400 / 730: the very instants at which timers of calls started at 0 fire, so
            // that a timer firing and a new request meet in one dispatch poll)
            c.start_ms = *rng.pick(&[0u64, 0, 0, 70, 200, 365, 380, 400, 440, 600, 730]) * 86_400_000;
        }
        plans.clear();
        for _ in 0..2 {
            // mostly never answered; sometimes answered months later — at, just before or just
            // after the instants at which the call's year-long timers fire (and, when the clock is
            // stepped across such an instant, inside the step: the reply and the due timer then
            // wait for the dispatch together)
            if rng.chance(350) {
                const H: u64 = 3_600_000;
                let after = *rng.pick(&[200 * 24 * H, 364 * 24 * H + 12 * H, 365 * 24 * H - H, 365 * 24 * H, 365 * 24 * H + H, 399 * 24 * H + 12 * H, 400 * 24 * H, 729 * 24 * H + 12 * H]);
                plans.push(vec![ReplyScn { when: When::After(after), id: IdKind::Same, err: rng.chance(150) }]);
            } else {
                plans.push(vec![]);
            }
        }
        stalls.clear();
        unsolicited.clear();
        drop_handles_at = None;
        kill_dispatch_at = None;
        peer_eof_at = None;
    }
    let mut faults = vec![];
    if focus == Focus::Faults {
        use crate::transport::{FaultAt, Op2};
        let op = *rng.pick(&[Op2::Ready, Op2::Send, Op2::Flush, Op2::Close, Op2::Next, Op2::NextEof, Op2::Send, Op2::Next]);
        let k = match op {
            Op2::Close => 1,
            Op2::Send => rng.range(1, 2 * n_calls as u64 + 1) as u32,
            _ => rng.range(1, 40) as u32,
        };
        faults.push(FaultAt { op, k });
    }
    ClientScn {
        max_in_flight,
        pending_buf,
        link: LinkCfg { cap, coupled, sticky: faults.is_empty() || rng.chance(600), faults, explicit_flush: coupled && cap > 0 && rng.chance(300) },
        stalls,
        handles,
        calls,
        plans,
        unsolicited,
        drop_handles_at,
        kill_dispatch_at,
        peer_eof_at,
        preempt_permille: if subscriber != 0 || long { 0 } else { *rng.pick(&[0u32, 0, 60, 250]) },
        // a legal executor may poll a task that was not woken; never for the deadline/shutdown
        // focused runs, where strict wake-only scheduling is what exposes lost wake-ups
        spurious_permille: if focus == Focus::General && subscriber == 0 && rng.chance(120) { 100 } else { 0 },
        waker_churn: rng.chance(80),
        subscriber,
        long,
        jumps: if focus == Focus::Deadlines && !long && rng.chance(250) {
            (0..rng.range(1, 2)).map(|_| (rng.range(0, 20), *rng.pick(&[1u64, 3, 10, 40, 200]))).collect()
        } else if long && rng.chance(300) {
            // a step of two days across one of the instants at which year-long timers fire:
            // whatever was due inside it is overdue, not just due, when the endpoint runs again
            vec![(*rng.pick(&[364u64, 399, 699, 729]) * 86_400_000, 2 * 86_400_000)]
        } else {
            vec![]
        },
    }
}

fn dl_duration(d: &Dl) -> Option<Duration> {
    match d {
        Dl::Ms(ms) if *ms >= 0 => Some(Duration::from_millis(*ms as u64)),
        Dl::Ms(_) => None,
        Dl::Secs(s) => Some(Duration::from_secs(*s)),
        Dl::SecsNanos(s, n) => Some(Duration::new(*s, *n)),
    }
}

pub fn horizon_ms(s: &ClientScn) -> u64 {
    if s.long {
        return LONG_HORIZON_MS;
    }
    let mut h = 100u64;
    for c in &s.calls {
        let d = match &c.deadline {
            Dl::Ms(ms) => (*ms).max(0) as u64,
            Dl::Secs(s) => s.saturating_mul(1000).min(1 << 38),
            Dl::SecsNanos(s, _) => s.saturating_mul(1000).min(1 << 38),
        };
        h = h.max(c.start_ms + d.min(1 << 38));
    }
    for (a, d) in &s.stalls {
        if *d < 1_000_000 {
            h = h.max(a + d);
        }
    }
    (h + 3_000).min(4_000_000)
}

/// Per-tag stage board so callers can abandon at protocol stages.
#[derive(Default)]
pub struct Board {
    stage: RefCell<HashMap<u64, u8>>,
    waiters: RefCell<Vec<(u64, u8, Waker)>>,
    id_to_tag: RefCell<HashMap<u64, u64>>,
}

impl Board {
    pub fn set(&self, tag: u64, st: u8) {
        {
            let mut m = self.stage.borrow_mut();
            let e = m.entry(tag).or_insert(0);
            if *e >= st {
                return;
            }
            *e = st;
        }
        let mut ws = self.waiters.borrow_mut();
        let mut i = 0;
        while i < ws.len() {
            if ws[i].0 == tag && ws[i].1 <= st {
                let (_, _, w) = ws.swap_remove(i);
                w.wake();
            } else {
                i += 1;
            }
        }
    }
    pub fn reached(&self, tag: u64, st: u8, w: &Waker) -> bool {
        if self.stage.borrow().get(&tag).copied().unwrap_or(0) >= st {
            return true;
        }
        self.waiters.borrow_mut().push((tag, st, w.clone()));
        false
    }
}

fn outcome_of(r: &Result<u64, RpcError>) -> Outcome {
    match r {
        Ok(b) => Outcome::Ok(*b),
        Err(RpcError::Server(e)) => Outcome::Server(format!("{:?}", e.kind), e.detail.clone()),
        Err(RpcError::DeadlineExceeded) => Outcome::DeadlineExceeded,
        Err(RpcError::Shutdown) => Outcome::Shutdown,
        Err(RpcError::Send(_)) => Outcome::Send,
        Err(RpcError::Channel(e)) => Outcome::Channel(
            match e {
                tarpc::ChannelError::Read(_) => "Read",
                tarpc::ChannelError::Ready(_) => "Ready",
                tarpc::ChannelError::Write(_) => "Write",
                tarpc::ChannelError::Flush(_) => "Flush",
                tarpc::ChannelError::Close(_) => "Close",
            }
            .to_string(),
        ),
    }
}

pub fn chan_err_name<E: ?Sized>(e: &tarpc::ChannelError<E>) -> &'static str {
    match e {
        tarpc::ChannelError::Read(_) => "Read",
        tarpc::ChannelError::Ready(_) => "Ready",
        tarpc::ChannelError::Write(_) => "Write",
        tarpc::ChannelError::Flush(_) => "Flush",
        tarpc::ChannelError::Close(_) => "Close",
    }
}

pub fn trace128(x: u64) -> u128 {
    ((x as u128) << 64) | crate::tape::splitmix(x) as u128
}

pub const CALLER_SPAN_BASE: u64 = 0x7000_0000;

/// Drives one `call` with the scripted abandonment.
pub async fn run_call(
    sim: Rc<Sim>,
    idx: u32,
    tag: u64,
    c: CallScn,
    ch: Chan,
    board: Rc<Board>,
) {
    let now = sim.now_ms();
    let base = sim.instant_at(now);
    let deadline = match &c.deadline {
        Dl::Ms(ms) if *ms < 0 => sim.instant_at(now + *ms),
        d => match base.checked_add(dl_duration(d).unwrap()) {
            Some(i) => i,
            None => {
                // not representable as an Instant: the caller could not have built it either
                sim.log(EvKind::CallSkipped { call: idx });
                return;
            }
        },
    };
    let mut ctx = context::current();
    ctx.deadline = deadline;
    ctx.trace_context = trace::Context {
        trace_id: trace::TraceId::from(trace128(c.trace)),
        span_id: trace::SpanId::from(CALLER_SPAN_BASE + idx as u64),
        sampling_decision: if c.sampled {
            trace::SamplingDecision::Sampled
        } else {
            trace::SamplingDecision::Unsampled
        },
    };
    sim.log(EvKind::Invoke {
        call: idx,
        tag,
        deadline_ms: sim.ms_of(deadline),
        trace: trace128(c.trace),
        sampled: c.sampled,
    });
    if c.abandon == Some(Ab::BeforePoll) {
        let f = ch.call(ctx, tag);
        drop(f);
        sim.log(EvKind::Abandon { call: idx });
        return;
    }
    let mut fut = Box::pin(ch.call(ctx, tag));
    let mut polls = 0u32;
    let mut timer: Option<Pin<Box<tokio::time::Sleep>>> = match &c.abandon {
        Some(Ab::AtMs(t)) => Some(Box::pin(tokio::time::sleep(Duration::from_millis(*t)))),
        _ => None,
    };
    let r = poll_fn(|cx| {
        let fire = match &c.abandon {
            Some(Ab::AtMs(_)) => timer.as_mut().unwrap().as_mut().poll(cx).is_ready(),
            Some(Ab::AfterPolls(k)) => polls >= *k,
            Some(Ab::AtStage(s)) => board.reached(tag, *s, cx.waker()),
            _ => false,
        };
        if fire {
            return Poll::Ready(None);
        }
        polls += 1;
        let r = fut.as_mut().poll(cx);
        if r.is_pending() {
            if let Some(Ab::AfterPolls(k)) = &c.abandon {
                if polls >= *k {
                    cx.waker().wake_by_ref();
                }
            }
        }
        r.map(Some)
    })
    .await;
    match r {
        None => {
            sim.log(EvKind::Abandon { call: idx });
            drop(fut);
            sim.log(EvKind::Note { what: "abandon_done", a: idx as i64, b: 0 });
        }
        Some(res) => {
            sim.log(EvKind::Resolve {
                call: idx,
                outcome: outcome_of(&res),
            });
        }
    }
}

pub struct ClientState {
    pub handles: Rc<RefCell<Vec<Option<Chan>>>>,
    pub callers: Vec<usize>,
    pub chaos: Vec<usize>,
    pub dispatch: usize,
    pub replies_pending: Rc<Cell<i64>>,
    pub handles_dropped: bool,
    pub peer: PeerEnd<Response<u64>, ClientMessage<u64>>,
    pub mon_violations: Vec<Violation>,
}

fn mk_response(id: u64, body: u64, err: bool) -> Response<u64> {
    Response {
        request_id: id,
        message: if err {
            // the detail is peer-chosen text: mostly short, sometimes long, multi-byte or empty
            Err(ServerError::new(
                // any error kind is the peer's to choose, including ones that read like a
                // local condition (a timeout, a broken connection)
                match body % 5 {
                    1 => std::io::ErrorKind::TimedOut,
                    2 => std::io::ErrorKind::ConnectionReset,
                    3 => std::io::ErrorKind::WouldBlock,
                    _ => std::io::ErrorKind::Other,
                },
                match body % 11 {
                    3 => format!("e{body}{}", "\u{20ac}".repeat(400)),
                    5 => format!("e{body}{}", "x".repeat(3000)),
                    7 => format!("e{body}{}", "\u{e9}\u{1f980}".repeat(300)),
                    9 => String::new(),
                    _ => format!("e{body}"),
                },
            ))
        } else {
            Ok(body)
        },
    }
}

/// The scripted server peer: reads what the client flushed, answers per plan.
pub async fn peer_task(
    sim: Rc<Sim>,
    peer: PeerEnd<Response<u64>, ClientMessage<u64>>,
    plans: Vec<Vec<ReplyScn>>,
    board: Rc<Board>,
    replies_pending: Rc<Cell<i64>>,
) {
    let mut k = 0usize;
    let mut finished: Vec<u64> = Vec::new();
    let body = Rc::new(Cell::new(10_000u64));
    while let Some(msg) = peer.take().await {
        let (id, deadline_ms, tag) = match msg.describe_req() {
            Some(x) => x,
            None => continue,
        };
        let plan = plans.get(k).cloned().unwrap_or_else(|| {
            vec![ReplyScn { when: When::Now, id: IdKind::Same, err: false }]
        });
        k += 1;
        for r in plan {
            let rid = match r.id {
                IdKind::Same => id,
                IdKind::Finished => finished.last().copied().unwrap_or(id.wrapping_add(1000)),
                IdKind::Unknown => id.wrapping_add(777),
                IdKind::Zero => 0,
                IdKind::Max => u64::MAX,
                IdKind::Next => id + 1,
                IdKind::High32 => id | (1 << 32),
                IdKind::Top => id ^ (1 << 63),
            };
            if rid == id {
                finished.push(id);
            }
            let b = body.get();
            body.set(b + 1);
            let delay: i64 = match r.when {
                When::Now => 0,
                When::After(d) => d as i64,
                When::AtDeadline(off) => (deadline_ms + off - sim.now_ms()).max(0),
            };
            let resp = mk_response(rid, b, r.err);
            if delay == 0 {
                if rid == id {
                    board.set(tag, 3);
                }
                peer.push(resp);
            } else {
                replies_pending.set(replies_pending.get() + 1);
                let (peer2, board2, rp) = (peer.clone(), board.clone(), replies_pending.clone());
                sim.spawn_bg("reply", async move {
                    tokio::time::sleep(Duration::from_millis(delay as u64)).await;
                    if rid == id {
                        board2.set(tag, 3);
                    }
                    peer2.push(resp);
                    rp.set(rp.get() - 1);
                });
            }
        }
    }
}

trait DescribeReq {
    fn describe_req(&self) -> Option<(u64, i64, u64)>;
}
impl DescribeReq for ClientMessage<u64> {
    fn describe_req(&self) -> Option<(u64, i64, u64)> {
        match self {
            ClientMessage::Request(r) => Some((
                r.id,
                crate::exec::cur().map(|s| s.ms_of(r.context.deadline)).unwrap_or(0),
                r.message,
            )),
            _ => None,
        }
    }
}

pub fn run(scn: &ClientScn, tape: Tape, logging: bool) -> RunOutput {
    let knobs = Knobs {
        preempt_permille: scn.preempt_permille,
        spurious_permille: scn.spurious_permille,
        ..Knobs::default()
    };
    let horizon = horizon_ms(scn);
    let scn2 = scn.clone();
    let _sub = crate::subscribers::install(scn.subscriber);
    run_sim(
        tape,
        knobs,
        horizon,
        logging,
        |sim| {
            let scn = scn2;
            let (transport, peer) =
                sim_link::<Response<u64>, ClientMessage<u64>>(0, "client", scn.link.clone());
            let link = transport.link();
            let board = Rc::new(Board::default());
            let cfg = {
                let mut c = client::Config::default();
                c.max_in_flight_requests = scn.max_in_flight;
                c.pending_request_buffer = scn.pending_buf;
                c
            };
            let client::NewClient { client, dispatch } = client::new(cfg, transport);
            let handles: Rc<RefCell<Vec<Option<Chan>>>> = Rc::new(RefCell::new(
                (0..scn.handles).map(|_| Some(client.clone())).collect(),
            ));
            drop(client);
            // dispatch task
            let sim_d = sim.clone();
            let link_d = link.clone();
            let board_d = board.clone();
            if scn.waker_churn {
                sim.count("fault.waker_churn");
            }
            let churn = scn.waker_churn;
            let dispatch_id = sim.spawn("dispatch", async move {
                let mut dispatch = Box::pin(dispatch);
                let mut seen_sends = 0usize;
                let res = poll_fn(|cx| {
                    link_d.borrow_mut().mon.owner_poll_begin();
                    let r = dispatch.as_mut().poll(cx);
                    let d: &client::RequestDispatch<_, _, _> = &dispatch;
                    sim_d.log(EvKind::Sample { node: 0, what: "c_in_flight", value: d.verif_in_flight() as u64 });
                    sim_d.log(EvKind::Sample { node: 0, what: "c_timers", value: d.verif_timers() as u64 });
                    let _ = (&board_d, &mut seen_sends);
                    link_d.borrow_mut().mon.owner_poll_end("client", r.is_pending());
                    r
                })
                .await;
                sim_d.log(EvKind::DispatchDone {
                    node: 0,
                    res: match &res {
                        Ok(()) => "Ok".to_string(),
                        Err(e) => format!("Err({})", chan_err_name(e)),
                    },
                });
            });
            sim.set_waker_churn(dispatch_id, churn);
            // stage board is fed from the log by a watcher hooked into the link events: we do it
            // cheaply by scanning new log entries at each peer/dispatch step via a bg task.
            let replies_pending = Rc::new(Cell::new(0i64));
            let sim_p = sim.clone();
            sim.spawn_bg(
                "peer",
                peer_task(sim_p, peer.clone(), scn.plans.clone(), board.clone(), replies_pending.clone()),
            );
            // callers
            let mut callers = Vec::new();
            for (i, c) in scn.calls.iter().enumerate() {
                let (sim_c, c2, handles_c, board_c) = (sim.clone(), c.clone(), handles.clone(), board.clone());
                let id = sim.spawn(&format!("caller{i}"), async move {
                    if c2.start_ms > 0 {
                        tokio::time::sleep(Duration::from_millis(c2.start_ms)).await;
                    }
                    let ch = handles_c.borrow().get(c2.handle).and_then(|h| h.clone());
                    match ch {
                        None => {
                            sim_c.log(EvKind::CallSkipped { call: i as u32 });
                        }
                        Some(ch) => run_call(sim_c.clone(), i as u32, i as u64, c2, ch, board_c).await,
                    }
                });
                callers.push(id);
            }
            // chaos: stalls, unsolicited, handle drop, dispatch kill, peer eof
            let mut chaos = Vec::new();
            for (at, dur) in scn.stalls.clone() {
                let (sim_c, peer_c) = (sim.clone(), peer.clone());
                chaos.push(sim.spawn("stall", async move {
                    tokio::time::sleep(Duration::from_millis(at)).await;
                    sim_c.log(EvKind::Fault { kind: "stall_begin", arg: 0 });
                    sim_c.count("fault.stall");
                    peer_c.set_blocked(true);
                    tokio::time::sleep(Duration::from_millis(dur)).await;
                    sim_c.log(EvKind::Fault { kind: "stall_end", arg: 0 });
                    peer_c.set_blocked(false);
                }));
            }
            for (at, id) in scn.unsolicited.clone() {
                let (sim_c, peer_c) = (sim.clone(), peer.clone());
                chaos.push(sim.spawn("unsolicited", async move {
                    tokio::time::sleep(Duration::from_millis(at)).await;
                    sim_c.count("fault.unsolicited_reply");
                    peer_c.push(mk_response(id, 900_000 + at, false));
                }));
            }
            for (at, delta) in scn.jumps.clone() {
                let sim_c = sim.clone();
                chaos.push(sim.spawn("clock_jump", async move {
                    tokio::time::sleep(Duration::from_millis(at)).await;
                    // a jump models a stalled process / stepped clock *between* polls; time that
                    // passes in the middle of another task's poll is not something any oracle
                    // here accounts for
                    while sim_c.depth() > 1 {
                        crate::profiles::server::yield_once().await;
                    }
                    sim_c.log(EvKind::Fault { kind: "clock_jump", arg: delta as i64 });
                    sim_c.count("fault.clock_jump");
                    tokio::time::advance(Duration::from_millis(delta)).await;
                    sim_c.log(EvKind::Fault { kind: "clock_jump_end", arg: delta as i64 });
                }));
            }
            if let Some(at) = scn.drop_handles_at {
                let (sim_c, handles_c) = (sim.clone(), handles.clone());
                chaos.push(sim.spawn("drop_handles", async move {
                    tokio::time::sleep(Duration::from_millis(at)).await;
                    sim_c.log(EvKind::Fault { kind: "drop_handles", arg: 0 });
                    sim_c.count("fault.drop_handles");
                    let hs: Vec<_> = handles_c.borrow_mut().iter_mut().map(|h| h.take()).collect();
                    drop(hs);
                }));
            }
            if let Some(at) = scn.kill_dispatch_at {
                let sim_c = sim.clone();
                chaos.push(sim.spawn("kill_dispatch", async move {
                    tokio::time::sleep(Duration::from_millis(at)).await;
                    sim_c.log(EvKind::Fault { kind: "kill_dispatch", arg: 0 });
                    sim_c.count("fault.kill_dispatch");
                    sim_c.kill(dispatch_id);
                }));
            }
            if let Some(at) = scn.peer_eof_at {
                let (sim_c, peer_c) = (sim.clone(), peer.clone());
                chaos.push(sim.spawn("peer_eof", async move {
                    tokio::time::sleep(Duration::from_millis(at)).await;
                    sim_c.count("fault.peer_eof");
                    sim_c.log(EvKind::Fault { kind: "peer_eof", arg: 0 });
                    peer_c.close_read();
                }));
            }
            // Feed the stage board from transport events as they are logged.
            let board_o = board.clone();
            *sim.observer.borrow_mut() = Some(Rc::new(move |k: &EvKind| {
                if let EvKind::TOp { link: 0, op, res: Res::Ok, item: Some(it) } = k {
                    match (op, it) {
                        (Op::Send, Item::Req { id, tag, .. }) => {
                            board_o.id_to_tag.borrow_mut().insert(*id, *tag);
                            board_o.set(*tag, 2);
                        }
                        (Op::Next, Item::Resp { id, .. }) => {
                            let tag = board_o.id_to_tag.borrow().get(id).copied();
                            if let Some(tag) = tag {
                                board_o.set(tag, 4);
                            }
                        }
                        _ => {}
                    }
                }
            }));
            ClientState {
                handles,
                callers,
                chaos,
                dispatch: dispatch_id,
                replies_pending,
                handles_dropped: false,
                peer,
                mon_violations: Vec::new(),
            }
        },
        |sim, st0| {
            let callers_done = st0.callers.iter().all(|c| sim.is_done(*c));
            let chaos_done = st0.chaos.iter().all(|c| sim.is_done(*c));
            if callers_done && chaos_done && st0.replies_pending.get() == 0 {
                if !st0.handles_dropped {
                    st0.handles_dropped = true;
                    let already = st0.handles.borrow().iter().all(|h| h.is_none());
                    if !already {
                        sim.log(EvKind::Fault { kind: "drop_handles", arg: 1 });
                        let hs: Vec<_> = st0.handles.borrow_mut().iter_mut().map(|h| h.take()).collect();
                        drop(hs);
                        return IdleAct::Again;
                    }
                }
                if sim.is_done(st0.dispatch) {
                    return IdleAct::Stop;
                }
            }
            IdleAct::Wait
        },
        |sim, st, end| {
            let link = st.peer.st.clone();
            let mut v = std::mem::take(&mut link.borrow_mut().mon.violations);
            let log = sim.log.borrow();
            if logging {
                v.extend(check(scn, &log, end.horizon_reached, sim));
            }
            let spun = link.borrow().mon.max_not_ready_in_poll;
            if spun > 8 {
                sim.count("probe.many_not_ready_in_poll");
            }
            crate::finish_output(sim, v, end, "client")
        },
    )
}

// ------------------------------------------------------------------------------------------
// Oracles over the recorded history.

#[derive(Default, Debug, Clone)]
struct CallRec {
    invoke: Option<(u64, i64)>,
    deadline: i64,
    trace: u128,
    sampled: bool,
    resolve: Option<(u64, i64, Outcome)>,
    abandon: Option<(u64, i64)>,
    abandon_done: Option<u64>,
    skipped: bool,
    id: Option<u64>,
    r_send: Option<(u64, i64, bool)>,
    r_span: u64,
    c_send: Option<(u64, i64, bool)>,
}

fn viol(prop: &'static str, rule: &str, tags: &[&str], detail: String) -> Violation {
    Violation {
        prop,
        rule: rule.to_string(),
        tags: tags.iter().map(|s| s.to_string()).collect(),
        detail,
    }
}

pub fn check(scn: &ClientScn, log: &[Ev], horizon_reached: bool, sim: &Sim) -> Vec<Violation> {
    let mut v = Vec::new();
    let n = scn.calls.len();
    let mut calls: Vec<CallRec> = vec![CallRec::default(); n];
    let mut id_to_call: HashMap<u64, usize> = HashMap::new();
    // (seq, t, id, body-ok, body-err)
    let mut nexts: Vec<(u64, i64, u64, Option<u64>, Option<String>)> = Vec::new();
    let mut sends_per_id: BTreeMap<u64, Vec<(u64, bool /*is_req*/, bool /*ok*/)>> = BTreeMap::new();
    let mut dispatch_done: Option<(u64, String)> = None;
    let mut dispatch_killed: Option<u64> = None;
    let mut first_fail: Option<(u64, Op)> = None;
    let mut read_eof: Option<u64> = None;
    let mut stall_depth = 0i32;
    let mut close_called: Option<u64> = None;
    let mut close_completed: Option<u64> = None;
    let mut handles_dropped: Option<u64> = None;
    let mut teardown: Option<u64> = None;
    let mut idles: Vec<(u64, i64, bool /*writable*/)> = Vec::new();
    let mut last_sample: (u64, u64) = (0, 0);
    let mut samples_at_idle: Vec<(u64, u64, u64)> = Vec::new();
    let mut dispatch_task: Option<u16> = None;
    let mut panicked = false;
    // clock jumps: (t_before, t_after)
    let mut jumps: Vec<(i64, i64)> = Vec::new();
    for e in log {
        if let EvKind::Fault { kind: "clock_jump", arg } = &e.kind {
            jumps.push((e.t, e.t + *arg));
        }
    }
    // a deadline that falls inside a jump can only be acted upon once the jump is over
    let after_jump = |t0: i64| {
        let mut t = t0;
        loop {
            let t2 = jumps.iter().filter(|(a, b)| *a <= t && t <= *b).map(|(_, b)| *b).max().unwrap_or(t);
            if t2 == t {
                return t;
            }
            t = t2;
        }
    };
    // A call whose deadline lies beyond the run's horizon can legitimately occupy an in-flight
    // slot (and keep others queued) until the run ends: liveness rules do not apply then.
    let far_deadlines = calls_far(scn);
    let extreme = scn.calls.iter().any(|c| !matches!(c.deadline, Dl::Ms(ms) if ms <= 3_600_000));

    for e in log {
        if teardown.is_some() {
            break;
        }
        match &e.kind {
            EvKind::Note { what: "teardown", .. } => teardown = Some(e.seq),
            EvKind::Invoke { call, deadline_ms, trace, sampled, .. } => {
                let c = &mut calls[*call as usize];
                c.invoke = Some((e.seq, e.t));
                c.deadline = *deadline_ms;
                c.trace = *trace;
                c.sampled = *sampled;
            }
            EvKind::Resolve { call, outcome } => {
                calls[*call as usize].resolve = Some((e.seq, e.t, outcome.clone()));
            }
            EvKind::Abandon { call } => calls[*call as usize].abandon = Some((e.seq, e.t)),
            EvKind::Note { what: "abandon_done", a, .. } => {
                calls[*a as usize].abandon_done = Some(e.seq)
            }
            EvKind::CallSkipped { call } => calls[*call as usize].skipped = true,
            EvKind::DispatchDone { res, .. } => dispatch_done = Some((e.seq, res.clone())),
            EvKind::TaskDropped { victim } => {
                if Some(*victim) == dispatch_task && dispatch_done.is_none() {
                    dispatch_killed = Some(e.seq);
                }
            }
            EvKind::Panic { .. } => panicked = true,
            EvKind::Fault { kind: "stall_begin", .. } => stall_depth += 1,
            EvKind::Fault { kind: "stall_end", .. } => stall_depth -= 1,
            EvKind::Fault { kind: "drop_handles", .. } => {
                handles_dropped.get_or_insert(e.seq);
            }
            EvKind::Fault { kind: "kill_dispatch", .. } => {
                if dispatch_done.is_none() {
                    dispatch_killed = Some(e.seq);
                }
            }
            EvKind::Sample { what: "c_in_flight", value, .. } => {
                dispatch_task = Some(e.task);
                last_sample.0 = *value;
                if *value as usize > scn.max_in_flight {
                    v.push(viol(
                        "C11",
                        "client-over-capacity",
                        &[],
                        format!("in-flight {} > max {} at seq {}", value, scn.max_in_flight, e.seq),
                    ));
                }
            }
            EvKind::Sample { what: "c_timers", value, .. } => last_sample.1 = *value,
            EvKind::Idle => {
                let writable = stall_depth == 0 && first_fail.is_none();
                idles.push((e.seq, e.t, writable));
                samples_at_idle.push((e.seq, last_sample.0, last_sample.1));
            }
            EvKind::TOp { link: 0, op, res, item } => {
                // a failed write of a request only fails that call; a failed write of a
                // cancellation is terminal, like every other failed operation
                let terminal = *res == Res::Err && (*op != Op::Send || matches!(item, Some(Item::Cancel { .. })));
                if terminal && first_fail.is_none() {
                    first_fail = Some((e.seq, *op));
                }
                if *op == Op::Close {
                    close_called.get_or_insert(e.seq);
                    if *res == Res::Ok {
                        close_completed.get_or_insert(e.seq);
                    }
                }
                if *op == Op::Next && *res == Res::Eof {
                    read_eof.get_or_insert(e.seq);
                }
                match (op, item) {
                    (Op::Send, Some(Item::Req { id, tag, trace, span, sampled, .. })) => {
                        let ok = *res == Res::Ok;
                        sends_per_id.entry(*id).or_default().push((e.seq, true, ok));
                        if (*tag as usize) < n {
                            let c = &mut calls[*tag as usize];
                            if c.r_send.is_some() {
                                v.push(viol("C03", "double-request", &[], format!("call {tag} transmitted twice")));
                            }
                            if let Some(prev) = id_to_call.get(id) {
                                if *prev != *tag as usize {
                                    v.push(viol("C01", "id-collision", &[], format!("id {id} used by calls {prev} and {tag}")));
                                }
                            }
                            id_to_call.insert(*id, *tag as usize);
                            c.id = Some(*id);
                            c.r_send = Some((e.seq, e.t, ok));
                            if let Item::Req { deadline_ms, .. } = item.as_ref().unwrap() {
                                if *deadline_ms != c.deadline && scn.subscriber != 2 {
                                    v.push(viol("C07", "request-deadline", &[], format!("call {tag}: caller's deadline {} ms, request transmitted with deadline {} ms", c.deadline, deadline_ms)));
                                }
                            }
                            c.r_span = *span;
                            if scn.subscriber != 2 {
                                if *trace != c.trace {
                                    v.push(viol("C18", "trace-id-changed", &[], format!("call {tag}: sent {trace:x}, caller supplied {:x}", c.trace)));
                                }
                                if *sampled != c.sampled {
                                    v.push(viol("C18", "trace-id-changed", &["sampling"], format!("call {tag}: sampling decision changed")));
                                }
                                if *span == CALLER_SPAN_BASE + *tag || *span == 0 {
                                    v.push(viol("C18", "span-not-fresh", &["client"], format!("call {tag}: span id {span:x} not fresh")));
                                }
                            }
                        }
                    }
                    (Op::Send, Some(Item::Cancel { id, trace, span, sampled })) => {
                        let ok = *res == Res::Ok;
                        sends_per_id.entry(*id).or_default().push((e.seq, false, ok));
                        match id_to_call.get(id) {
                            Some(ci) => {
                                let c = &mut calls[*ci];
                                if c.c_send.is_some() {
                                    v.push(viol("C03", "double-cancel", &[], format!("id {id} cancelled twice")));
                                }
                                c.c_send = Some((e.seq, e.t, ok));
                                if c.abandon.is_none() {
                                    v.push(viol("C03", "cancel-after-resolve", &[], format!("cancel for id {id} whose call was not abandoned")));
                                }
                                // compare with the transmitted request
                                let sent_trace = c.trace;
                                let _ = sent_trace;
                                if let Some(Item::Req { trace: rt, span: rs, sampled: rsamp, .. }) = find_req(log, *id) {
                                    if rt != *trace || rs != *span || rsamp != *sampled {
                                        v.push(viol("C18", "cancel-context", &[], format!("cancel for id {id} carries ({trace:x},{span:x},{sampled}), request carried ({rt:x},{rs:x},{rsamp})")));
                                    }
                                }
                            }
                            None => v.push(viol("C03", "cancel-before-request", &[], format!("cancel for id {id} with no request transmitted before it"))),
                        }
                    }
                    (Op::Next, Some(Item::Resp { id, ok, err })) if *res == Res::Ok => {
                        nexts.push((e.seq, e.t, *id, *ok, err.as_ref().map(|x| format!("{}|{}", x.0, x.1))));
                    }
                    _ => {}
                }
            }
            _ => {}
        }
    }
    let end_seq = teardown.unwrap_or(u64::MAX);
    let _ = end_seq;
    let dispatch_end = dispatch_done.as_ref().map(|d| d.0).or(dispatch_killed);

    // ---- rare-condition probes (coverage only)
    {
        if calls.iter().any(|c| c.abandon.is_some() && c.r_send.is_none() && c.invoke.is_some()) {
            sim.count("probe.abandoned_before_transmission");
        }
        if calls.iter().any(|c| c.c_send.is_some()) {
            sim.count("probe.cancel_on_wire");
        }
        if calls.iter().any(|c| matches!(c.r_send, Some((_, _, false)))) {
            sim.count("probe.request_write_failed");
        }
        if nexts.iter().any(|x| !id_to_call.contains_key(&x.2)) {
            sim.count("probe.reply_for_unknown_id");
        }
        if calls.iter().any(|c| c.id.map(|id| nexts.iter().any(|x| x.2 == id && (x.1 - c.deadline).abs() <= 1)).unwrap_or(false)) {
            sim.count("probe.reply_within_1ms_of_deadline");
        }
        if calls.iter().any(|c| c.id.map(|id| nexts.iter().filter(|x| x.2 == id).count() >= 2).unwrap_or(false)) {
            sim.count("probe.duplicate_reply");
        }
        if calls.iter().any(|c| match (&c.abandon, c.id) {
            (Some((aseq, _)), Some(id)) => nexts.iter().any(|x| x.2 == id && x.0 < *aseq),
            _ => false,
        }) {
            sim.count("probe.abandoned_after_reply_was_read");
        }
        if samples_at_idle.iter().any(|s| s.1 as usize >= scn.max_in_flight) {
            sim.count("probe.idle_at_in_flight_capacity");
        }
    }

    // ---- C01 / C05: what each call resolved with
    for (i, c) in calls.iter().enumerate() {
        let Some((inv_seq, _)) = c.invoke else { continue };
        let _ = inv_seq;
        let first_reply = c.id.and_then(|id| {
            let (rs, _, ok) = c.r_send.unwrap();
            if !ok {
                return None;
            }
            nexts.iter().find(|x| x.2 == id && x.0 > rs)
        });
        if let Some((rseq, rt, outcome)) = &c.resolve {
            match outcome {
                Outcome::Ok(b) => {
                    let ok = c.id.is_some()
                        && nexts.iter().any(|x| Some(x.2) == c.id && x.3 == Some(*b) && x.0 < *rseq);
                    if !ok {
                        v.push(viol("C01", "foreign-or-invented-reply", &[], format!("call {i} (id {:?}) returned Ok({b}) but no such reply for its id was read before", c.id)));
                    }
                }
                Outcome::Server(k, d) => {
                    let kd = format!("{k}|{d}");
                    let ok = c.id.is_some()
                        && nexts.iter().any(|x| Some(x.2) == c.id && x.4.as_deref() == Some(kd.as_str()) && x.0 < *rseq);
                    if !ok {
                        v.push(viol("C01", "foreign-or-invented-reply", &["err"], format!("call {i} (id {:?}) returned server error {d} but no such reply for its id was read before", c.id)));
                    }
                }
                Outcome::DeadlineExceeded => {
                    if *rt < c.deadline {
                        v.push(viol("C05", "early", &[], format!("call {i}: DeadlineExceeded at t={rt} < deadline {}", c.deadline)));
                    }
                    if let Some((_, ts, true)) = c.r_send {
                        let bound = after_jump(c.deadline.max(ts)) + 2;
                        if *rt > bound && (!extreme || scn.long) {
                            v.push(viol("C05", "late", &[], format!("call {i}: DeadlineExceeded at t={rt}, deadline {} (sent at {ts})", c.deadline)));
                        }
                    }
                }
                _ => {}
            }
            // first reply wins
            if let Some(fr) = first_reply {
                let abandoned_before = c.abandon.map(|a| a.0 < fr.0).unwrap_or(false);
                let failed_before = first_fail.map(|f| f.0 < fr.0).unwrap_or(false);
                if fr.1 <= c.deadline - 2 && !abandoned_before && !failed_before && fr.0 < *rseq {
                    let matches = match outcome {
                        Outcome::Ok(b) => fr.3 == Some(*b),
                        Outcome::Server(k, d) => fr.4.as_deref() == Some(format!("{k}|{d}").as_str()),
                        _ => false,
                    };
                    if !matches {
                        if *outcome == Outcome::DeadlineExceeded {
                            v.push(viol("C05", "reply-lost-to-timer", &[], format!("call {i}: reply read at t={} (deadline {}), call reported DeadlineExceeded", fr.1, c.deadline)));
                        } else {
                            v.push(viol("C01", "stray-disturbs", &[], format!("call {i}: first reply for its id read at seq {} was {:?}/{:?}, call resolved {:?}", fr.0, fr.3, fr.4, outcome)));
                        }
                    }
                }
            }
        } else if c.abandon.is_none() && !c.skipped && c.r_send.map(|r| r.2).unwrap_or(false) && first_reply.is_none() && first_fail.is_none() && dispatch_killed.is_none() && read_eof.is_none() && !sim.overrun.get() && (!far_deadlines || log.last().map(|e| e.t).unwrap_or(0) >= c.deadline.saturating_add(2)) && !panicked {
            // transmitted, never answered, deadline long past, still pending: the deadline is
            // not being enforced (whatever the sink is doing)
            let end_t = log.last().map(|e| e.t).unwrap_or(0);
            if end_t >= c.deadline + 2 {
                v.push(viol("C05", "late", &["never"], format!("call {i}: request transmitted at t={}, deadline {}, no reply, still pending at t={end_t}", c.r_send.unwrap().1, c.deadline)));
            }
            if stall_depth == 0 {
                v.push(viol("C02", "hang", &[if horizon_reached { "horizon" } else { "stopped" }], format!("call {i} (id {:?}, deadline {}) still pending at the end of the run; {}", c.id, c.deadline, missing_wake_hint(log, dispatch_task))));
            }
        } else if c.abandon.is_none() && !c.skipped && stall_depth > 0 {
            // the sink never became writable again: outside C02's precondition
        } else if c.abandon.is_none() && !c.skipped {
            // unresolved at the end of the run (calls whose deadline lies beyond the run's
            // horizon are legitimately still pending)
            if !sim.overrun.get() && !far_deadlines {
                v.push(viol(
                    "C02",
                    "hang",
                    &[if horizon_reached { "horizon" } else { "stopped" }],
                    format!("call {i} (id {:?}, deadline {}) still pending at the end of the run; {}", c.id, c.deadline, missing_wake_hint(log, dispatch_task)),
                ));
            }
        }
        // C05.late for calls that never resolved is the C02 hang above.
    }

    // ---- C02: the deadline timer must wake the dispatch. For every transmitted, unanswered,
    // un-abandoned call whose deadline passes while the dispatch is alive, the dispatch task has
    // to be polled at that instant (timer granularity: within 2 ms), whatever the sink is doing.
    if let Some(dt) = dispatch_task {
        let end_t = log.last().map(|e| e.t).unwrap_or(0);
        let polls: Vec<i64> = log.iter().filter(|e| e.task == dt && matches!(e.kind, EvKind::PollBegin)).map(|e| e.t).collect();
        for (i, c) in calls.iter().enumerate() {
            let Some((rs, ts, true)) = c.r_send else { continue };
            let due0 = c.deadline.max(ts);
            let due = after_jump(due0);
            if due + 2 > end_t || far_deadlines {
                continue;
            }
            let t_of = |seq: u64| log.get(seq as usize).map(|e| e.t).unwrap_or(i64::MAX);
            let replied_before = c.id.map(|id| nexts.iter().any(|x| x.2 == id && x.0 > rs && x.1 <= due + 2)).unwrap_or(false);
            let abandoned_before = c.abandon.map(|a| a.1 <= due + 2).unwrap_or(false);
            let resolved_before = c.resolve.as_ref().map(|r| r.1 < due).unwrap_or(false);
            let dispatch_over = dispatch_end.map(|d| t_of(d) <= due + 2).unwrap_or(false);
            let failed = first_fail.map(|f| t_of(f.0) <= due + 2).unwrap_or(false);
            let eof = read_eof.map(|r| t_of(r) <= due + 2).unwrap_or(false);
            if replied_before || abandoned_before || resolved_before || dispatch_over || failed || eof || panicked {
                continue;
            }
            if !polls.iter().any(|t| *t >= due0 && *t <= due + 2) {
                v.push(viol("C02", "lost-wake", &["timer"], format!("call {i}: deadline {} (request transmitted at {ts}) passed with no reply, but the dispatch was not polled between t={due} and t={}: the timer did not wake it", c.deadline, due + 2)));
            }
        }
    }

    // ---- C03 sink sequence per id + obligation
    for (id, seq) in &sends_per_id {
        let reqs = seq.iter().filter(|x| x.1).count();
        let cans = seq.iter().filter(|x| !x.1).count();
        if reqs > 1 {
            v.push(viol("C03", "double-request", &[], format!("id {id}: {reqs} requests")));
        }
        if cans > 1 {
            v.push(viol("C03", "double-cancel", &[], format!("id {id}: {cans} cancels")));
        }
        if cans >= 1 {
            let first_c = seq.iter().find(|x| !x.1).unwrap().0;
            let first_r = seq.iter().find(|x| x.1).map(|x| x.0);
            if first_r.map(|r| r > first_c).unwrap_or(true) {
                v.push(viol("C03", "cancel-before-request", &[], format!("id {id}: cancel at seq {first_c} precedes its request")));
            }
        }
    }
    for (iseq, it, writable) in &idles {
        if !*writable {
            continue;
        }
        if dispatch_end.map(|d| d < *iseq).unwrap_or(false) || read_eof.map(|r| r < *iseq).unwrap_or(false) {
            continue;
        }
        if close_called.map(|c| c < *iseq).unwrap_or(false) {
            continue;
        }
        for (i, c) in calls.iter().enumerate() {
            if let (Some(adone), Some((rs, _, true)), None) = (c.abandon_done, c.r_send, c.c_send) {
                if adone < *iseq && rs < *iseq {
                    let replied = nexts.iter().any(|x| Some(x.2) == c.id && x.0 > rs && x.0 < *iseq);
                    let expired = c.deadline <= *it;
                    if !replied && !expired {
                        v.push(viol("C03", "missing-cancel", &[], format!("call {i} (id {:?}) abandoned at seq {adone}, request on the wire, no cancel by idle point seq {iseq}", c.id)));
                        if handles_dropped.map(|h| h < *iseq).unwrap_or(false) {
                            v.push(viol("C10", "drain-stalled", &[], format!("last handle dropped, transport writable, yet the cancel owed for call {i} (id {:?}) is still not transmitted at idle seq {iseq} and the transport is not closed", c.id)));
                        }
                    }
                }
            }
        }
        // C02: capacity or writability returning has to get queued requests moving. At a
        // quiescent point with a writable transport and a free in-flight slot no live call may
        // still be waiting, unsent, inside the client.
        if let Some(smp) = samples_at_idle.iter().find(|x| x.0 == *iseq) {
            let killed = dispatch_killed.map(|k| k < *iseq).unwrap_or(false);
            if (smp.1 as usize) < scn.max_in_flight && !killed && !panicked && handles_dropped.map(|h| h > *iseq).unwrap_or(true) {
                for (i, c) in calls.iter().enumerate() {
                    let Some((inv, _)) = c.invoke else { continue };
                    let unsent = c.r_send.map(|r| r.0 > *iseq).unwrap_or(true);
                    let gone = c.abandon.map(|a| a.0 < *iseq).unwrap_or(false) || c.resolve.as_ref().map(|r| r.0 < *iseq).unwrap_or(false) || c.skipped;
                    if inv < *iseq && unsent && !gone {
                        v.push(viol("C02", "lost-wake", &["capacity"], format!("call {i} is still queued inside the client at idle seq {iseq} although the transport is writable and only {} of {} in-flight slots are taken: nothing woke the dispatch to send it", smp.1, scn.max_in_flight)));
                        break;
                    }
                }
            }
        }
        // C11: everything ended => nothing tracked
        let all_ended = calls.iter().all(|c| match c.invoke {
            None => true,
            Some((s, _)) if s > *iseq => true,
            _ => {
                c.resolve.as_ref().map(|r| r.0 < *iseq).unwrap_or(false)
                    || c.abandon_done.map(|a| a < *iseq).unwrap_or(false)
            }
        });
        if all_ended {
            if let Some(s) = samples_at_idle.iter().find(|s| s.0 == *iseq) {
                if s.1 != 0 {
                    v.push(viol("C11", "leak-entry", &["client"], format!("all calls ended but {} request(s) still tracked at idle seq {iseq}", s.1)));
                }
                if s.2 != 0 {
                    v.push(viol("C11", "leak-timer", &["client"], format!("all calls ended but {} deadline timer(s) still armed at idle seq {iseq}", s.2)));
                }
            }
        }
    }
    // C11 wire-derived outstanding
    {
        let mut open: BTreeSet<u64> = BTreeSet::new();
        let mut deadline_of: HashMap<u64, i64> = HashMap::new();
        for e in log {
            if let EvKind::TOp { link: 0, op, res: Res::Ok, item: Some(it) } = &e.kind {
                match (op, it) {
                    (Op::Send, Item::Req { id, deadline_ms, .. }) => {
                        open.retain(|x| deadline_of.get(x).map(|d| *d > e.t).unwrap_or(true));
                        open.insert(*id);
                        deadline_of.insert(*id, *deadline_ms);
                        if open.len() > scn.max_in_flight {
                            v.push(viol("C11", "client-over-capacity", &["wire"], format!("{} requests outstanding on the wire > max {}", open.len(), scn.max_in_flight)));
                        }
                    }
                    (Op::Send, Item::Cancel { id, .. }) => {
                        open.remove(id);
                    }
                    (Op::Next, Item::Resp { id, .. }) => {
                        open.remove(id);
                    }
                    _ => {}
                }
            }
        }
    }

    // ---- C09 / C10 client side
    if let Some((fseq, op)) = first_fail {
        let want = match op {
            Op::Next => "Err(Read)",
            Op::Ready => "Err(Ready)",
            Op::Flush => "Err(Flush)",
            Op::Close => "Err(Close)",
            Op::Send => "Err(Write)",
        };
        if dispatch_killed.is_none() {
            match &dispatch_done {
                Some((_, r)) if r == want => {}
                Some((_, r)) if r == "Ok" && read_eof.map(|x| x < fseq).unwrap_or(false) => {}
                Some((_, r)) => v.push(viol("C09", if r == "Ok" { "dispatch-ok-after-fault" } else { "wrong-activity" }, &[], format!("transport {op:?} failed at seq {fseq}, dispatch returned {r}, expected {want}"))),
                None => v.push(viol("C09", "hang", &["dispatch"], format!("transport {op:?} failed at seq {fseq} but the dispatch never completed"))),
            }
        }
        // every call enqueued or in flight at that moment resolves with a Channel error
        for (i, c) in calls.iter().enumerate() {
            if let (Some((iseq, _)), None) = (c.invoke, &c.abandon) {
                if let Some((rseq, _, out)) = &c.resolve {
                    let in_flight_at_fail = c.r_send.map(|r| r.0 < fseq && r.2).unwrap_or(false) && *rseq > fseq;
                    if in_flight_at_fail && dispatch_killed.is_none() {
                        let replied_before = nexts.iter().any(|x| Some(x.2) == c.id && x.0 < fseq);
                        let expired = c.deadline <= log.iter().find(|e| e.seq == fseq).map(|e| e.t).unwrap_or(0);
                        if !matches!(out, Outcome::Channel(_)) && !replied_before && !expired {
                            v.push(viol("C09", "outstanding-not-failed", &[], format!("call {i} was in flight when the transport failed (seq {fseq}) but resolved {out:?}")));
                        }
                    }
                    if iseq > fseq && *rseq > fseq {
                        match out {
                            Outcome::Ok(_) | Outcome::Server(..) => {
                                // must have a reply (C01 checks); flag success after failure
                                let has = nexts.iter().any(|x| Some(x.2) == c.id && x.0 < *rseq);
                                if !has {
                                    v.push(viol("C09", "phantom-ok", &[], format!("call {i} succeeded after the transport failed")));
                                }
                            }
                            _ => {}
                        }
                    }
                }
            }
        }
    } else if dispatch_killed.is_none() && !panicked {
        // no transport failure: the dispatch may only end Ok, and only after EOF or handle drop
        if let Some((dseq, r)) = &dispatch_done {
            if r != "Ok" {
                v.push(viol("C09", "spurious-error", &[], format!("dispatch returned {r} at seq {dseq} without any transport failure")));
            } else if read_eof.is_none() && handles_dropped.map(|h| h > *dseq).unwrap_or(true) {
                v.push(viol("C10", "dispatch-ended-early", &[], format!("dispatch returned Ok at seq {dseq} although handles exist and the peer did not close")));
            }
        }
    }
    // once the dispatch has ended (for whatever reason) later calls fail fast: they resolve
    // within the idle window in which they were made, with an error
    if let Some(dend) = dispatch_end {
        for (i, c) in calls.iter().enumerate() {
            let Some((iseq, _)) = c.invoke else { continue };
            if iseq < dend || c.abandon.is_some() || c.skipped {
                continue;
            }
            let next_idle = idles.iter().find(|x| x.0 > iseq).map(|x| x.0);
            match (&c.resolve, next_idle) {
                (Some((rseq, _, out)), Some(ni)) => {
                    if *rseq > ni {
                        v.push(viol("C09", "not-fail-fast", &[], format!("call {i} made after the dispatch ended (seq {dend}) resolved only at seq {rseq}, after idle seq {ni}")));
                    }
                    if matches!(out, Outcome::Ok(_) | Outcome::Server(..)) {
                        v.push(viol("C09", "phantom-ok", &["after-end"], format!("call {i} made after the dispatch ended resolved {out:?}")));
                    }
                }
                (None, Some(ni)) => v.push(viol("C09", "not-fail-fast", &["pending"], format!("call {i} made after the dispatch ended (seq {dend}) is still pending at idle seq {ni}"))),
                _ => {}
            }
        }
        sim.count("probe.call_after_dispatch_ended");
    }
    // a failed start_send of a request fails only that call
    for (i, c) in calls.iter().enumerate() {
        if let (Some((_, _, false)), Some((_, _, out))) = (c.r_send, &c.resolve) {
            if first_fail.map(|f| f.0 > c.r_send.unwrap().0).unwrap_or(true) && *out != Outcome::Send && dispatch_killed.is_none() {
                v.push(viol("C09", "send-failure-outcome", &[], format!("call {i}: writing its request failed, call resolved {out:?} (expected Send)")));
            }
        }
    }
    if let Some((fseq, Op::Send)) = first_fail {
        let _ = fseq;
    }

    // C10 client: close ordering and completion
    if let Some(cseq) = close_called {
        for (id, seq) in &sends_per_id {
            if seq.iter().any(|x| x.0 > cseq) {
                v.push(viol("C10", "write-after-close", &[], format!("id {id}: written after poll_close was first called (seq {cseq})")));
            }
        }
        if first_fail.is_none() {
            for (i, c) in calls.iter().enumerate() {
                if let (Some(adone), Some((rs, _, true)), None) = (c.abandon_done, c.r_send, c.c_send) {
                    if adone < cseq && rs < cseq {
                        let replied = nexts.iter().any(|x| Some(x.2) == c.id && x.0 > rs && x.0 < cseq);
                        let t_close = log.iter().find(|e| e.seq == cseq).map(|e| e.t).unwrap_or(0);
                        if !replied && c.deadline > t_close {
                            v.push(viol("C10", "close-before-drain", &[], format!("call {i} (id {:?}) abandoned with its request on the wire, but the transport was closed (seq {cseq}) without its cancel", c.id)));
                            v.push(viol("C03", "missing-cancel", &["at-close"], format!("call {i} (id {:?}) abandoned at seq {adone} with its request on the wire; the dispatch closed the transport (seq {cseq}) without ever transmitting its cancel", c.id)));
                        }
                    }
                }
            }
            // nothing queued may be skipped: any call that had been accepted... (calls hold a
            // handle while outstanding, so only cancels can be owed at close)
        }
        if handles_dropped.map(|h| h > cseq).unwrap_or(true) && read_eof.is_none() {
            v.push(viol("C10", "close-with-live-handles", &[], format!("poll_close called at seq {cseq} while client handles were alive")));
        }
    }
    if let Some(h) = handles_dropped {
        // after the last handle is dropped the dispatch must finish Ok once the link is writable
        let link_ok_at_end = first_fail.is_none() && stall_depth == 0;
        if link_ok_at_end && dispatch_killed.is_none() && !panicked && !far_deadlines {
            match &dispatch_done {
                Some((_, r)) if r == "Ok" => {}
                Some((_, r)) => v.push(viol("C10", "dispatch-not-ok", &[], format!("handles dropped at seq {h}, dispatch returned {r}"))),
                None => {
                    if !sim.overrun.get() {
                        v.push(viol("C10", "no-completion", &[], format!("handles dropped at seq {h} but the dispatch never completed")));
                    }
                }
            }
            if dispatch_done.is_some() && close_called.is_none() && read_eof.is_none() {
                v.push(viol("C10", "no-close", &[], "dispatch completed after handle drop without closing the transport".to_string()));
            }
            // a close that is still pending (it has to flush first) is not a close yet
            if matches!(&dispatch_done, Some((_, r)) if r == "Ok") && close_called.is_some() && close_completed.is_none() && read_eof.is_none() && first_fail.is_none() {
                v.push(viol("C10", "no-close", &["pending"], "dispatch completed Ok after handle drop although the transport's close had only returned Pending (what it still had to flush is never transmitted)".to_string()));
            }
        }
    }
    // the peer ending the read side is itself an event that has to wake the dispatch and stop it,
    // whether or not anything is in flight at that moment
    if let Some(pseq) = log.iter().find(|e| matches!(e.kind, EvKind::Fault { kind: "peer_eof", .. })).map(|e| e.seq) {
        let next_idle = idles.iter().find(|x| x.0 > pseq).map(|x| x.0);
        if let Some(ni) = next_idle {
            let ended_before = dispatch_done.as_ref().map(|d| d.0 < pseq).unwrap_or(false) || dispatch_killed.map(|k| k < ni).unwrap_or(false);
            if !ended_before && !panicked && teardown.map(|t| ni < t).unwrap_or(true) && !dispatch_done.as_ref().map(|d| d.0 < ni).unwrap_or(false) {
                v.push(viol("C10", "eof-hang", &["dispatch", "unnoticed"], format!("the peer ended the read side at seq {pseq}; dispatch still running at idle seq {ni}")));
            }
        }
    }
    if let Some(eseq) = read_eof {
        // the dispatch stops in the same idle window and every outstanding call fails
        let next_idle = idles.iter().find(|x| x.0 > eseq).map(|x| x.0);
        if let Some(ni) = next_idle {
            if dispatch_killed.is_none() && !panicked {
                if !dispatch_done.as_ref().map(|d| d.0 < ni).unwrap_or(false) {
                    v.push(viol("C10", "eof-hang", &["dispatch"], format!("read side ended at seq {eseq}; dispatch still running at idle seq {ni}")));
                    // the same thing seen from C09: end-of-stream at any point, whatever the
                    // write side is doing, must not leave the dispatch (and its calls) hanging
                    v.push(viol("C09", "hang", &["eof", "dispatch"], format!("read side ended at seq {eseq}; dispatch still running at idle seq {ni}")));
                }
                for (i, c) in calls.iter().enumerate() {
                    if let Some((iseq, _)) = c.invoke {
                        if iseq < eseq && c.abandon.is_none() && !c.resolve.as_ref().map(|r| r.0 < ni).unwrap_or(false) {
                            v.push(viol("C10", "eof-hang", &["call"], format!("read side ended at seq {eseq}; call {i} still pending at idle seq {ni}")));
                            v.push(viol("C09", "hang", &["eof", "call"], format!("read side ended at seq {eseq}; call {i} still pending at idle seq {ni}")));
                        }
                    }
                }
            }
        }
    }

    // panics: a panicked task makes every other verdict about this run meaningless, so the
    // panic (itself a violation) is the only thing reported for it.
    if sim.panics.borrow().iter().any(|(_, m)| !m.starts_with("SIM_SPIN")) {
        v.clear();
    } else if !sim.panics.borrow().is_empty() {
        // spin breaker fired: the C14.spin violation is in the monitor's list; drop the rest
        v.clear();
    }
    for (task, msg) in sim.panics.borrow().iter() {
        if msg.starts_with("SIM_SPIN") {
            continue;
        }
        let prop = if extreme || scn.subscriber != 0 {
            "C16"
        } else if !scn.link.faults.is_empty() {
            "C09"
        } else {
            "C02"
        };
        let mut tags = vec![crate::panic_class(msg)];
        if tags[0] == "timer-range" {
            let t_panic = log.iter().rev().find(|e| e.task as usize == *task).map(|e| e.t).unwrap_or(0);
            let mut armed: Vec<(i64, i64, i64)> = calls
                .iter()
                .filter_map(|c| match c.r_send {
                    Some((_, ts, true)) => {
                        let mut end = i64::MAX;
                        if let Some(r) = &c.resolve {
                            end = end.min(r.1);
                        }
                        if let Some(a) = c.abandon {
                            end = end.min(a.1);
                        }
                        Some((ts, c.deadline, end))
                    }
                    _ => None,
                })
                .collect();
            // the dispatch arms the timer before it writes the request: the request at the head
            // of the queue (oldest invoked, unsent, not abandoned) is the one being armed
            if let Some(c) = calls.iter().filter(|c| c.invoke.is_some() && c.r_send.is_none() && c.abandon.is_none()).min_by_key(|c| c.invoke.unwrap().0) {
                armed.push((t_panic, c.deadline, i64::MAX));
            }
            if crate::profiles::timer_queue_stale(&armed, t_panic) {
                tags.push("stale-timer-queue");
            }
        }
        v.push(viol(prop, "panic", &tags, format!("task {} panicked: {}", sim.names.borrow()[*task], msg)));
    }
    v
}

fn calls_far(scn: &ClientScn) -> bool {
    let h = horizon_ms(scn);
    scn.calls.iter().any(|c| {
        let d = match &c.deadline {
            Dl::Ms(ms) => (*ms).max(0) as u64,
            Dl::Secs(s) | Dl::SecsNanos(s, _) => s.saturating_mul(1000),
        };
        c.start_ms.saturating_add(d).saturating_add(2_000) > h
    })
}

fn find_req(log: &[Ev], id: u64) -> Option<Item> {
    for e in log {
        if let EvKind::TOp { link: 0, op: Op::Send, item: Some(it @ Item::Req { id: i, .. }), .. } = &e.kind {
            if *i == id {
                return Some(it.clone());
            }
        }
    }
    None
}

fn missing_wake_hint(log: &[Ev], dispatch_task: Option<u16>) -> String {
    // last poll of the dispatch vs the last enabling event after it
    let Some(dt) = dispatch_task else { return String::new() };
    let last_poll = log.iter().rev().find(|e| e.task == dt && matches!(e.kind, EvKind::PollBegin)).map(|e| e.seq).unwrap_or(0);
    let later: Vec<String> = log
        .iter()
        .filter(|e| e.seq > last_poll && e.task != dt)
        .filter_map(|e| match &e.kind {
            EvKind::PeerPush { item, .. } => Some(format!("reply queued {:?} at seq {}", item.id(), e.seq)),
            EvKind::Fault { kind, .. } => Some(format!("{kind} at seq {}", e.seq)),
            EvKind::PeerEof { .. } => Some(format!("peer closed at seq {}", e.seq)),
            _ => None,
        })
        .collect();
    format!("dispatch last polled at seq {last_poll}; enabling events after it: {later:?}")
}
