pub mod client;

use crate::engine::{CheckSpec, Gen};
use crate::tape::{Rng, Tape};
use crate::RunOutput;
use serde::{Deserialize, Serialize};

#[derive(Clone, Debug, Serialize, Deserialize)]
pub enum Scenario {
    Client(client::ClientScn),
}

impl Scenario {
    /// Structural validity (the shrinker only proposes valid scenarios).
    pub fn valid(&self) -> bool {
        match self {
            Scenario::Client(c) => c.valid(),
        }
    }
}

pub fn run_scenario(s: &Scenario, tape: Tape) -> RunOutput {
    match s {
        Scenario::Client(c) => client::run(c, tape, true),
    }
}

fn g_client_general(r: &mut Rng) -> Scenario {
    Scenario::Client(client::gen(r, client::Focus::General))
}
fn g_client_deadlines(r: &mut Rng) -> Scenario {
    Scenario::Client(client::gen(r, client::Focus::Deadlines))
}
fn g_client_abandon(r: &mut Rng) -> Scenario {
    Scenario::Client(client::gen(r, client::Focus::Abandon))
}
fn g_client_shutdown(r: &mut Rng) -> Scenario {
    Scenario::Client(client::gen(r, client::Focus::Shutdown))
}
fn g_client_independent(r: &mut Rng) -> Scenario {
    Scenario::Client(client::gen(r, client::Focus::Independent))
}
fn g_client_extreme(r: &mut Rng) -> Scenario {
    Scenario::Client(client::gen(r, client::Focus::Extreme))
}

const CLIENT_REAL: &[&str] = &[
    "tarpc::client::new / Channel::call / RequestDispatch (real)",
    "client InFlightRequests + tokio_util DelayQueue (real, paused tokio clock)",
    "tarpc::cancellations, tokio mpsc/oneshot (real)",
];
const CLIENT_STUB: &[&str] = &[
    "transport: SimTransport (scripted Stream+Sink with contract monitor)",
    "server peer: scripted replies (late, duplicate, unknown ids, never)",
    "caller tasks, executor and clock: simulator",
];

fn gen(name: &'static str, weight: u32, f: fn(&mut Rng) -> Scenario) -> Gen {
    Gen { name, weight, f, expand: None }
}

pub fn checks() -> Vec<CheckSpec> {
    vec![
        CheckSpec {
            prop: "C01",
            level: "exploration",
            gens: vec![gen("client.general", 3, g_client_general), gen("client.abandon", 1, g_client_abandon), gen("client.deadlines", 1, g_client_deadlines)],
            quick_runs: 300_000,
            thorough_runs: 6_000_000,
            rule: "seeded scenarios (1-8 concurrent calls over 1-3 handles, scripted peer answering reordered/duplicated/late/unknown ids) x seeded schedules; a run is non-trivial when at least one fault or rare-condition probe fired; distinct = distinct interleaving signature",
            real: CLIENT_REAL,
            stub: CLIENT_STUB,
            assumptions: &["tokio/futures channel primitives are linearizable", "transport delivers in order (reordering is injected in the peer's behaviour)"],
        },
        CheckSpec {
            prop: "C02",
            level: "exploration",
            gens: vec![gen("client.general", 2, g_client_general), gen("client.abandon", 1, g_client_abandon), gen("client.shutdown", 1, g_client_shutdown)],
            quick_runs: 300_000,
            thorough_runs: 6_000_000,
            rule: "strict wake-only scheduling: a task is polled only after its waker fired; every call has a finite deadline below the horizon; hang = call still pending at quiescence; non-trivial = a fault/probe fired; distinct = interleaving signature",
            real: CLIENT_REAL,
            stub: CLIENT_STUB,
            assumptions: &["stalls are finite", "tokio timers wake their registrant"],
        },
        CheckSpec {
            prop: "C05",
            level: "exploration",
            gens: vec![gen("client.deadlines", 3, g_client_deadlines), gen("client.general", 1, g_client_general)],
            quick_runs: 300_000,
            thorough_runs: 6_000_000,
            rule: "deadline classes {expired,0,1,2,5,20,50,1000 ms ...} x queueing delay (capacity 1, stalls) x replies at D-2,D-1,D,D+1,never; virtual clock; non-trivial = a fault/probe fired",
            real: CLIENT_REAL,
            stub: CLIENT_STUB,
            assumptions: &["timer granularity 1 ms modelled as 2 ms slack"],
        },
        CheckSpec {
            prop: "C14",
            level: "exploration",
            gens: vec![gen("client.general", 2, g_client_general), gen("client.independent", 1, g_client_independent), gen("client.abandon", 1, g_client_abandon)],
            quick_runs: 300_000,
            thorough_runs: 6_000_000,
            rule: "contract monitor on every sink operation; capacities {1,2,3,inf}, coupled and independent readiness, stalls; non-trivial = a not-ready/flush-pending/stall fired",
            real: CLIENT_REAL,
            stub: CLIENT_STUB,
            assumptions: &[],
        },
        CheckSpec {
            prop: "C16",
            level: "exploration",
            gens: vec![gen("client.extreme", 1, g_client_extreme)],
            quick_runs: 100_000,
            thorough_runs: 2_000_000,
            rule: "boundary-valued deadlines",
            real: CLIENT_REAL,
            stub: CLIENT_STUB,
            assumptions: &[],
        },
    ]
}
