pub mod bytes;
pub mod client;
pub mod e2e;
pub mod listener;
pub mod server;
pub mod stubs;

use crate::engine::{CheckSpec, Gen};
use crate::tape::{Rng, Tape};
use crate::RunOutput;
use serde::{Deserialize, Serialize};

#[derive(Clone, Debug, Serialize, Deserialize)]
pub enum Scenario {
    Client(client::ClientScn),
    Server(server::ServerScn),
    Listener(listener::ListenerScn),
    Bytes(bytes::BytesScn),
    E2e(e2e::E2eScn),
    Stubs(stubs::StubScn),
}

impl Scenario {
    /// Structural validity (the shrinker only proposes valid scenarios).
    pub fn valid(&self) -> bool {
        match self {
            Scenario::Client(c) => c.valid(),
            Scenario::Server(c) => c.valid(),
            Scenario::Listener(c) => c.valid(),
            Scenario::Bytes(c) => c.valid(),
            Scenario::E2e(c) => c.valid(),
            Scenario::Stubs(c) => c.valid(),
        }
    }
}

pub fn run_scenario(s: &Scenario, tape: Tape) -> RunOutput {
    match s {
        Scenario::Client(c) => client::run(c, tape, true),
        Scenario::Server(c) => server::run(c, tape, true),
        Scenario::Listener(c) => listener::run(c, tape),
        Scenario::Bytes(c) => bytes::run(c, tape),
        Scenario::E2e(c) => e2e::run(c, tape),
        Scenario::Stubs(c) => stubs::run(c, tape),
    }
}

fn g_client_general(r: &mut Rng) -> Scenario {
    Scenario::Client(client::gen(r, client::Focus::General))
}
fn g_client_deadlines(r: &mut Rng) -> Scenario {
    Scenario::Client(client::gen(r, client::Focus::Deadlines))
}
fn g_client_abandon(r: &mut Rng) -> Scenario {
    Scenario::Client(client::gen(r, client::Focus::Abandon))
}
fn g_client_shutdown(r: &mut Rng) -> Scenario {
    Scenario::Client(client::gen(r, client::Focus::Shutdown))
}
fn g_client_independent(r: &mut Rng) -> Scenario {
    Scenario::Client(client::gen(r, client::Focus::Independent))
}
fn g_client_trace(r: &mut Rng) -> Scenario {
    Scenario::Client(client::gen(r, client::Focus::Trace))
}
fn g_client_long(r: &mut Rng) -> Scenario {
    Scenario::Client(client::gen(r, client::Focus::Long))
}
fn g_client_faults(r: &mut Rng) -> Scenario {
    Scenario::Client(client::gen(r, client::Focus::Faults))
}
fn g_client_extreme(r: &mut Rng) -> Scenario {
    Scenario::Client(client::gen(r, client::Focus::Extreme))
}

macro_rules! sgen {
    ($name:ident, $focus:ident) => {
        fn $name(r: &mut Rng) -> Scenario {
            Scenario::Server(server::gen(r, server::SFocus::$focus))
        }
    };
}
sgen!(g_server_general, General);
sgen!(g_server_cancel, Cancel);
sgen!(g_server_deadlines, Deadlines);
sgen!(g_server_limit, Limit);
sgen!(g_server_dups, Dups);
sgen!(g_server_shutdown, Shutdown);
sgen!(g_server_extreme, Extreme);
sgen!(g_server_independent, Independent);
sgen!(g_server_faults, Faults);
sgen!(g_server_parked, Parked);
sgen!(g_server_long, Long);

fn g_bytes_roundtrip(r: &mut Rng) -> Scenario {
    Scenario::Bytes(bytes::gen_roundtrip(r))
}
fn g_bytes_adversary(r: &mut Rng) -> Scenario {
    Scenario::Bytes(bytes::gen_adversary(r))
}

fn g_e2e_general(r: &mut Rng) -> Scenario {
    Scenario::E2e(e2e::gen(r, e2e::EFocus::General))
}
fn g_e2e_cascade(r: &mut Rng) -> Scenario {
    Scenario::E2e(e2e::gen(r, e2e::EFocus::Cascade))
}
fn g_e2e_deadlines(r: &mut Rng) -> Scenario {
    Scenario::E2e(e2e::gen(r, e2e::EFocus::Deadlines))
}
fn g_e2e_trace(r: &mut Rng) -> Scenario {
    Scenario::E2e(e2e::gen(r, e2e::EFocus::Trace))
}

fn g_stubs(r: &mut Rng) -> Scenario {
    Scenario::Stubs(stubs::gen(r))
}

fn g_stubs_retry(r: &mut Rng) -> Scenario {
    Scenario::Stubs(stubs::gen_retry(r))
}

fn g_listener(r: &mut Rng) -> Scenario {
    Scenario::Listener(listener::gen(r))
}

const SERVER_REAL: &[&str] = &[
    "tarpc::server::BaseChannel / Requests / InFlightRequest::execute (real)",
    "MaxRequests throttler when a limit is configured (real)",
    "server InFlightRequests + DelayQueue + futures Abortable (real, paused tokio clock)",
];
const SERVER_STUB: &[&str] = &[
    "transport: SimTransport (scripted Stream+Sink with contract monitor)",
    "client peer: scripted requests, duplicates, id reuse, cancels, close",
    "handlers: scripted Serve impls logging every poll and their own drop",
];

const CLIENT_REAL: &[&str] = &[
    "tarpc::client::new / Channel::call / RequestDispatch (real)",
    "client InFlightRequests + tokio_util DelayQueue (real, paused tokio clock)",
    "tarpc::cancellations, tokio mpsc/oneshot (real)",
];
const CLIENT_STUB: &[&str] = &[
    "transport: SimTransport (scripted Stream+Sink with contract monitor)",
    "server peer: scripted replies (late, duplicate, unknown ids, never)",
    "caller tasks, executor and clock: simulator",
];

fn gen(name: &'static str, weight: u32, f: fn(&mut Rng) -> Scenario) -> Gen {
    Gen { name, weight, f, expand: None }
}

fn gen_x(name: &'static str, weight: u32, f: fn(&mut Rng) -> Scenario, x: fn(&Scenario, &RunOutput, &mut Rng, bool) -> Vec<Scenario>) -> Gen {
    Gen { name, weight, f, expand: Some(x) }
}

/// Fault enumeration: the fault-free run told us how many times each transport operation was
/// invoked; re-run once per (operation, k) with that invocation failing (quick: at most 10
/// positions per operation, spread over the run; thorough: every position up to 60).
fn fault_positions(out: &RunOutput, rng: &mut Rng, thorough: bool, with_close: bool) -> Vec<crate::transport::FaultAt> {
    use crate::transport::{FaultAt, Op2};
    let mut v = Vec::new();
    let kinds: &[(&str, Op2)] = &[("op.ready", Op2::Ready), ("op.send", Op2::Send), ("op.flush", Op2::Flush), ("op.next", Op2::Next), ("op.next", Op2::NextEof), ("op.close", Op2::Close)];
    for (key, op) in kinds {
        if *op == Op2::Close && !with_close {
            continue;
        }
        let n = out.counters.get(key).copied().unwrap_or(0).min(if thorough { 60 } else { 400 }) as u32;
        if n == 0 {
            continue;
        }
        let cap = if thorough { 60 } else { 10 };
        if n <= cap {
            for k in 1..=n {
                v.push(FaultAt { op: *op, k });
            }
        } else {
            let mut ks: Vec<u32> = (0..cap).map(|_| 1 + rng.below(n as u64) as u32).collect();
            ks.push(1);
            ks.push(n);
            ks.sort();
            ks.dedup();
            for k in ks {
                v.push(FaultAt { op: *op, k });
            }
        }
    }
    v
}

fn expand_faults(s: &Scenario, out: &RunOutput, rng: &mut Rng, thorough: bool) -> Vec<Scenario> {
    let mut res = Vec::new();
    match s {
        Scenario::Client(c) => {
            for f in fault_positions(out, rng, thorough, true) {
                let mut c2 = c.clone();
                c2.link.faults = vec![f];
                c2.link.sticky = rng.chance(600);
                res.push(Scenario::Client(c2));
            }
        }
        Scenario::Server(c) => {
            for f in fault_positions(out, rng, thorough, false) {
                let mut c2 = c.clone();
                c2.link.faults = vec![f];
                c2.link.sticky = rng.chance(600);
                res.push(Scenario::Server(c2));
            }
        }
        _ => {}
    }
    res
}

/// Shutdown enumeration: end-of-stream instead of every k-th read (peer close / half-close at
/// every point of the run), on the client and on the server side.
fn expand_eof(s: &Scenario, out: &RunOutput, rng: &mut Rng, thorough: bool) -> Vec<Scenario> {
    use crate::transport::{FaultAt, Op2};
    let n = out.counters.get("op.next").copied().unwrap_or(0).min(if thorough { 80 } else { 16 }) as u32;
    let _ = rng;
    let mut res = Vec::new();
    for k in 1..=n {
        match s {
            Scenario::Client(c) => {
                let mut c2 = c.clone();
                c2.link.faults = vec![FaultAt { op: Op2::NextEof, k }];
                res.push(Scenario::Client(c2));
            }
            Scenario::Server(c) => {
                let mut c2 = c.clone();
                c2.link.faults = vec![FaultAt { op: Op2::NextEof, k }];
                res.push(Scenario::Server(c2));
            }
            _ => {}
        }
    }
    res
}

/// Abandonment enumeration: every call of the fault-free scenario is abandoned at every
/// suspension point in turn.
fn expand_abandon(s: &Scenario, _out: &RunOutput, _rng: &mut Rng, thorough: bool) -> Vec<Scenario> {
    use client::Ab;
    let mut res = Vec::new();
    if let Scenario::Client(c) = s {
        let mut points = vec![Ab::BeforePoll, Ab::AfterPolls(1), Ab::AfterPolls(2), Ab::AtStage(2), Ab::AtStage(3), Ab::AtStage(4)];
        if thorough {
            points.push(Ab::AfterPolls(3));
            points.push(Ab::AtMs(0));
            points.push(Ab::AtMs(1));
        }
        // every call of an ordinary scenario; of a burst (dozens to hundreds of calls) sixteen,
        // evenly spread: the first, the last and what lies between
        let n = c.calls.len();
        let picked: Vec<usize> = if n <= 16 { (0..n).collect() } else { (0..16).map(|k| k * (n - 1) / 15).collect() };
        for i in picked {
            let call = &c.calls[i];
            if call.abandon.is_some() {
                continue;
            }
            for p in &points {
                let mut c2 = c.clone();
                c2.calls[i].abandon = Some(p.clone());
                res.push(Scenario::Client(c2));
            }
        }
    }
    res
}

fn spec(
    prop: &'static str,
    level: &'static str,
    gens: Vec<Gen>,
    quick_runs: u64,
    thorough_runs: u64,
    rule: &'static str,
    real: &'static [&'static str],
    stub: &'static [&'static str],
    assumptions: &'static [&'static str],
) -> CheckSpec {
    CheckSpec { prop, level, gens, quick_runs, thorough_runs, rule, real, stub, assumptions }
}

const BOTH_REAL: &[&str] = &[
    "tarpc::client::new / Channel::call / RequestDispatch (real)",
    "tarpc::server::BaseChannel / Requests / InFlightRequest::execute / MaxRequests (real)",
    "both in-flight tables + tokio_util DelayQueue, cancellations, Abortable (real, paused tokio clock)",
];
const BOTH_STUB: &[&str] = &[
    "transport: SimTransport (scripted Stream+Sink with contract monitor)",
    "peers: scripted server (client side) / scripted client (server side)",
    "caller tasks, handlers, executor and clock: simulator",
];
const NT: &str = "non-trivial = at least one fault or rare-condition probe fired in the run; distinct = distinct interleaving signature (hash of the (task, event kind, result kind) sequence)";

/// Known finding D10. tokio_util's `DelayQueue` accepts a timer only if it lies less than 2^36 ms
/// after the point its wheel last advanced to, and the wheel advances only when one of its timers
/// fires. Both in-flight tables arm at most 365 days at a time, so a request that arrives when
/// nothing has fired on the connection's queue for more than 2^36 ms - min(365 d, its timeout)
/// panics ('invalid deadline'). `armed` lists every request the endpoint tracked as (armed at,
/// deadline, no longer tracked from); returns whether the requests armed at `t` meet exactly that
/// condition, from the fire times the armed requests imply (365-day re-arms, then the deadline).
pub fn timer_queue_stale(armed: &[(i64, i64, i64)], t: i64) -> bool {
    const SPAN: i64 = 365 * 86_400_000;
    const RANGE: i64 = (1i64 << 36) - 1;
    let mut last_fire = 0i64; // the queue is created with the endpoint, at t=0
    for &(a, d, end) in armed {
        if a >= t {
            continue;
        }
        let mut f = a;
        loop {
            let next = f.saturating_add(SPAN).min(d.max(a));
            if next <= f || next > t || next > end {
                break;
            }
            f = next;
            last_fire = last_fire.max(f);
        }
    }
    let new_span = armed.iter().filter(|x| x.0 == t).map(|&(a, d, _)| (d - a).clamp(0, SPAN)).min();
    match new_span {
        Some(sp) => (t - last_fire).saturating_add(sp) > RANGE,
        None => false,
    }
}

pub fn checks() -> Vec<CheckSpec> {
    let q = 1_200_000;
    let t = 40_000_000;
    vec![
        spec("C01", "exploration",
            vec![gen("client.general", 3, g_client_general), gen("client.abandon", 1, g_client_abandon), gen("client.deadlines", 1, g_client_deadlines)],
            q, t,
            "seeded scenarios (1-8 concurrent calls over 1-3 handles, scripted peer answering reordered/duplicated/late/unknown ids) x seeded schedules; non-trivial = at least one fault or rare-condition probe fired; distinct = distinct interleaving signature",
            CLIENT_REAL, CLIENT_STUB,
            &["tokio/futures channel primitives are linearizable", "transport delivers in order (reordering is injected in the peer's behaviour)"]),
        spec("C02", "exploration",
            vec![gen("client.general", 2, g_client_general), gen("client.abandon", 1, g_client_abandon), gen("client.shutdown", 1, g_client_shutdown), gen("client.deadlines", 2, g_client_deadlines), gen("client.independent", 1, g_client_independent), gen("client.long", 1, g_client_long), gen("client.faults", 1, g_client_faults)],
            q, t,
            "strict wake-only scheduling: a task is polled only after its waker fired; every call has a finite deadline below the horizon; hang = call still pending at quiescence; non-trivial = a fault/probe fired; distinct = interleaving signature",
            CLIENT_REAL, CLIENT_STUB,
            &["stalls are finite", "tokio timers wake their registrant"]),
        spec("C03", "fault_enumeration",
            vec![gen("client.abandon", 6, g_client_abandon), gen("client.general", 2, g_client_general), gen("client.shutdown", 2, g_client_shutdown), gen_x("client.general+abandon-enum", 1, g_client_general, expand_abandon), gen("client.long", 1, g_client_long)],
            q, t,
            "abandonment before first poll / after k polls / at a time / when the request is on the wire / when a reply is queued / when the reply was read, crossed with capacity 1-3, buffer 1-3, stalled sink; preemption inside the guard's Drop (hook H2); per-id sink sequence and the cancel obligation at idle points",
            CLIENT_REAL, CLIENT_STUB, &[]),
        spec("C04", "exploration",
            vec![gen("server.cancel", 3, g_server_cancel), gen("server.general", 1, g_server_general), gen("server.limit", 1, g_server_limit), gen("server.parked", 1, g_server_parked), gen("e2e.cascade", 2, g_e2e_cascade)],
            q, t,
            "service chains of depth 1-3 over mixed real links with the root call abandoned at a time or when the handler at node k starts (cascade rule at the first unstalled idle point); cancel positioned before/after handler start, completion, response buffering and write; 1-8 concurrent requests; limit on/off; sink stalls",
            SERVER_REAL, SERVER_STUB, &[]),
        spec("C05", "exploration",
            vec![gen("client.deadlines", 30, g_client_deadlines), gen("client.general", 10, g_client_general), gen("client.long", 1, g_client_long)],
            q, t,
            "deadline classes {expired,0,1,2,5,20,50,1000 ms ...} x queueing delay (capacity 1, stalls) x replies at D-2,D-1,D,D+1,never; virtual clock; non-trivial = a fault/probe fired",
            CLIENT_REAL, CLIENT_STUB,
            &["timer granularity 1 ms modelled as 2 ms slack"]),
        spec("C06", "exploration",
            vec![gen("server.deadlines", 30, g_server_deadlines), gen("server.general", 10, g_server_general), gen("server.limit", 10, g_server_limit), gen("server.long", 1, g_server_long), gen("bytes.adversary", 1, g_bytes_adversary)],
            q, t,
            "request deadlines {expired,0,1,2,5,10,20,50 ms} x handlers finishing at D-2..D+1/never x limit on/off x sink stalls; virtual clock",
            SERVER_REAL, SERVER_STUB,
            &["timer granularity 1 ms modelled as 2 ms slack"]),
        spec("C07", "exploration",
            vec![gen("bytes.roundtrip", 2, g_bytes_roundtrip), gen("server.general", 1, g_server_general), gen("server.deadlines", 1, g_server_deadlines), gen("e2e.deadlines", 3, g_e2e_deadlines), gen("e2e.general", 1, g_e2e_general), gen("client.general", 1, g_client_general), gen("stubs.retry", 1, g_stubs_retry), gen("bytes.adversary", 1, g_bytes_adversary)],
            q / 6, t / 6,
            "request deadlines 0 ms .. 1 h (including already expired at encode time) through JSON and bincode over a SimPipe with virtual latency and through the in-memory transport; the decoded / handler-observed deadline is compared with the caller's deadline and the measured transit time; JSON requests that omit the deadline must get decode time + 10 s",
            &["tarpc::context deadline (de)serialisation, serde_transport, wire types (real)", "BaseChannel / Requests / execute passing the request context to the handler (real)"],
            &["byte stream: SimPipe with virtual latency", "peers and handlers: scripted"],
            &["clock read through hook H1; all virtual instants are whole milliseconds"]),
        spec("C08", "exploration",
            vec![gen("server.general", 2, g_server_general), gen("server.dups", 3, g_server_dups), gen("server.cancel", 1, g_server_cancel), gen("server.shutdown", 1, g_server_shutdown), gen("server.parked", 1, g_server_parked), gen("server.deadlines", 1, g_server_deadlines), gen("server.long", 1, g_server_long)],
            q, t,
            "scripted peer sends fresh ids, duplicates while in flight, ids reused after their response, cancels and close; handlers complete in every order; response buffer 1,2,3,100",
            SERVER_REAL, SERVER_STUB, &["id reuse after cancel/expiry with a still-buffered response is outside the property's quantifier and excluded from response attribution"]),
        spec("C09", "fault_enumeration",
            vec![gen("client.faults", 20, g_client_faults), gen("server.faults", 20, g_server_faults), gen_x("client.general+fault-enum", 1, g_client_general, expand_faults), gen_x("server.general+fault-enum", 1, g_server_general, expand_faults)],
            q / 2, t / 2,
            "one injected transport failure per run at the k-th poll_ready / start_send / poll_flush / poll_close / poll_next (or end-of-stream instead of the k-th read), k drawn over the whole run, on top of the general client / server scenario space (calls blocked on the buffer, queued, in flight, replied-but-unread)",
            BOTH_REAL, BOTH_STUB,
            &["k is sampled per run (1..40) rather than enumerated exhaustively for one scenario"]),
        spec("C10", "fault_enumeration",
            vec![gen("client.shutdown", 8, g_client_shutdown), gen("client.abandon", 4, g_client_abandon), gen("server.shutdown", 8, g_server_shutdown), gen("server.general", 4, g_server_general), gen_x("client.general+eof-enum", 1, g_client_general, expand_eof), gen_x("server.general+eof-enum", 1, g_server_general, expand_eof)],
            q / 2, t / 2,
            "client: last handle dropped / peer EOF at a random point of every run plus at the end of every run; server: inbound EOF after the script with mixed in-flight work",
            BOTH_REAL, BOTH_STUB, &[]),
        spec("C11", "exploration",
            vec![gen("client.general", 2, g_client_general), gen("client.abandon", 2, g_client_abandon), gen("server.general", 2, g_server_general), gen("server.cancel", 1, g_server_cancel), gen("server.dups", 1, g_server_dups), gen("server.parked", 1, g_server_parked), gen("e2e.general", 1, g_e2e_general), gen("server.faults", 1, g_server_faults), gen("client.faults", 1, g_client_faults), gen("server.long", 1, g_server_long), gen("client.long", 1, g_client_long)],
            q, t,
            "in-flight and timer counts (hook H3) sampled after every dispatch / request-stream poll, compared with an interval model at every sample and at every idle point",
            BOTH_REAL, BOTH_STUB, &[]),
        spec("C12", "exploration",
            vec![gen("server.limit", 1, g_server_limit)],
            q, t,
            "limits L in {0,1,2,3}, bursts of 1-8 requests, cancels, completion orders, sink stalls; interval model of in-flight (definitely/possibly)",
            SERVER_REAL, SERVER_STUB, &[]),
        spec("C13", "exploration",
            vec![gen("listener", 1, g_listener)],
            q, t,
            "1-3 keys, n in {1,2,3}, batches of arrive/close executed atomically with the listener polled in between at tape-chosen points; 40% of batches make a close and a same-key arrival pending at one poll; reference map key -> live count",
            &["tarpc::server::limits::channels_per_key::{MaxChannelsPerKey, TrackedChannel} over real BaseChannels (real)", "tokio unbounded mpsc for close notifications (real)"],
            &["listener stream: scripted queue", "transport under each BaseChannel: inert keyed stub (no traffic needed)", "open/close driver: scripted"],
            &["drops of admitted channels are atomic harness steps"]),
        spec("C14", "exploration",
            vec![gen("client.general", 2, g_client_general), gen("client.independent", 1, g_client_independent), gen("client.abandon", 1, g_client_abandon), gen("server.general", 2, g_server_general), gen("server.independent", 1, g_server_independent), gen("server.limit", 1, g_server_limit), gen("client.faults", 2, g_client_faults), gen("server.faults", 2, g_server_faults)],
            q, t,
            "contract monitor on every sink operation; capacities {1,2,3,inf}, coupled and independent readiness, stalls; client dispatch, server channel and throttler",
            BOTH_REAL, BOTH_STUB, &[]),
        spec("C15", "exploration",
            vec![gen("bytes.roundtrip", 1, g_bytes_roundtrip)],
            q / 4, t / 8,
            "sequences of 0-12 protocol messages (all variants, boundary ids, trace ids 0/1/max, empty/unicode/64 KiB bodies, every io::ErrorKind) through serde_transport with JSON and bincode over a SimPipe that fragments reads and writes, returns Pending, limits capacity and adds latency, and through the in-memory bounded/unbounded channels; writer dropped or closed; hand-built JSON frames omitting optional fields",
            &["tarpc::serde_transport::Transport + tokio_serde Json/Bincode + LengthDelimitedCodec (real)", "tarpc::transport::channel::{unbounded,bounded} (real)", "wire types, util::serde error-kind table, trace u128 encoding, context deadline (de)serialisation (real)"],
            &["byte stream: SimPipe (partial reads/writes, Pending, capacity, latency decided by the tape)", "writer and reader tasks: simulator"],
            &["split positions are sampled by the tape (byte-by-byte reads are one of the configurations), not enumerated"]),
        spec("C16", "exploration",
            vec![gen("client.extreme", 2, g_client_extreme), gen("server.extreme", 2, g_server_extreme), gen("bytes.adversary", 3, g_bytes_adversary)],
            q / 4, t / 8,
            "boundary-valued deadlines (0, 2^36 ms +-1, 100 and 8000 years, u64::MAX s, max nanos) from callers and peers, with no subscriber / fmt subscriber / OpenTelemetry SDK layer",
            BOTH_REAL, BOTH_STUB, &[]),
        spec("C18", "exploration",
            vec![gen("client.trace", 2, g_client_trace), gen("client.abandon", 1, g_client_abandon), gen("client.general", 1, g_client_general), gen("server.general", 1, g_server_general), gen("server.limit", 1, g_server_limit), gen("e2e.trace", 3, g_e2e_trace), gen("stubs.retry", 1, g_stubs_retry)],
            q, t,
            "distinct caller-supplied trace ids and sampling decisions per call; wire Request/Cancel contexts and handler contexts compared",
            BOTH_REAL, BOTH_STUB, &[]),
        spec("C20", "exploration",
            vec![gen("stubs", 1, g_stubs)],
            q, t,
            "RoundRobin over 1-5 scripted backends with 1-6 concurrent caller tasks x 1-6 calls, abandoned calls, preemption at the cursor's yield point (hook H4); ConsistentHash with SipHash / constant / identity hashers; Retry over a backend with a generated result sequence (transient errors are the fault sequence) and a scripted policy, against a reference retry loop",
            &["tarpc::client::stub::load_balance::{RoundRobin, ConsistentHash}, tarpc::client::stub::retry::Retry (real)"],
            &["backends: scripted Stub impls with latency", "caller tasks, executor: simulator"],
            &["the consistent-hash clause is input sampling, not schedule dependent"]),
    ]
}
