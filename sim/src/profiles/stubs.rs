//! P-stubs: the load-balancing and retry stubs (`RoundRobin`, `ConsistentHash`, `Retry`) over
//! scripted backends, with concurrent caller tasks and preemption at the cursor's yield points.

use crate::exec::{preempt, run_sim, IdleAct, Knobs, Sim};
use crate::hist::{Ev, EvKind};
use crate::profiles::server::yield_once;
use crate::tape::{Rng, Tape};
use crate::{RunOutput, Violation};
use serde::{Deserialize, Serialize};
use std::cell::RefCell;
use std::collections::HashMap;
use std::hash::{BuildHasher, Hasher};
use std::rc::Rc;
use std::sync::Arc;
use std::time::Duration;
use tarpc::client::stub::load_balance::{ConsistentHash, RoundRobin};
use tarpc::client::stub::retry::Retry;
use tarpc::client::stub::Stub;
use tarpc::client::RpcError;
use tarpc::{context, ServerError};

#[derive(Clone, Debug, Serialize, Deserialize)]
pub enum StubScn {
    RoundRobin {
        backends: usize,
        /// per caller task: how many calls it issues one after another
        tasks: Vec<u32>,
        /// per backend: (yields, sleep_ms) before answering
        latency: Vec<(u32, u64)>,
        /// drop (abandon) the call future of task t's k-th call after its first poll
        abandon: Vec<(u32, u32)>,
        preempt_permille: u32,
        /// task t's k-th call is issued with a deadline that has already passed (the stub
        /// promises its spreading for any sequence of calls, whatever their contexts say)
        #[serde(default)]
        expired: Vec<(u32, u32)>,
        /// task t's k-th call future is built and dropped without ever being polled (an async
        /// call that is never polled is no call: it must not count in the rotation)
        #[serde(default)]
        unpolled: Vec<(u32, u32)>,
        /// if set, an extra task builds this many call futures up front and then drives them one
        /// after another in this order (a permutation), not in the order it built them
        #[serde(default)]
        batch_order: Vec<u32>,
        /// the callers render the stub with `{:?}` before every call (a log line): looking at a
        /// stub is not a call
        #[serde(default)]
        observe: bool,
    },
    Hash {
        backends: usize,
        /// 0 SipHash fixed keys, 1 constant 0, 2 constant u64::MAX, 3 identity of the last write
        hasher: u8,
        reqs: Vec<u64>,
        /// the requests are spread over the original stub and this many clones of it (a clone
        /// must send equal requests where the original sends them)
        #[serde(default)]
        clones: u8,
    },
    Retry {
        /// result of the n-th attempt: 0 ok, 1 server error, 2 deadline exceeded, 3 shutdown
        results: Vec<u8>,
        /// the policy retries errors while attempt < max_attempts ...
        max_attempts: u32,
        /// ... and (if set) also retries successes while attempt < this
        retry_ok_below: u32,
        latency_yields: u32,
        /// the caller's deadline, ms from the start of the call
        #[serde(default = "default_retry_deadline")]
        deadline_ms: u64,
        /// simulated time each attempt takes (so that attempts can end after the deadline)
        #[serde(default)]
        attempt_ms: u64,
        /// before the call that is judged, another call through the same stub is started, polled
        /// once (its first attempt is pending in the backend) and dropped
        #[serde(default)]
        abandon_first: bool,
        /// 0: no tracing subscriber, 1: a formatting subscriber at TRACE level (every `tracing`
        /// callsite in the stub is enabled and its fields are evaluated)
        #[serde(default)]
        subscriber: u8,
    },
}

fn default_retry_deadline() -> u64 {
    10_000
}

impl StubScn {
    pub fn valid(&self) -> bool {
        match self {
            StubScn::RoundRobin { backends, latency, preempt_permille, .. } => *backends >= 1 && latency.len() >= *backends && *preempt_permille <= 1000,
            StubScn::Hash { backends, .. } => *backends >= 1,
            StubScn::Retry { max_attempts, .. } => *max_attempts <= 64,
        }
    }
}

/// Retry scenarios only (the part of the stub space in which a deadline is carried).
pub fn gen_retry(rng: &mut Rng) -> StubScn {
    loop {
        let s = gen(rng);
        if matches!(s, StubScn::Retry { .. }) {
            return s;
        }
    }
}

pub fn gen(rng: &mut Rng) -> StubScn {
    match rng.below(10) {
        0..=5 => {
            let backends = rng.range(1, 5) as usize;
            let nt = rng.range(1, 6) as usize;
            let tasks: Vec<u32> = (0..nt).map(|_| rng.range(1, 6) as u32).collect();
            let latency = (0..backends).map(|_| (rng.below(3) as u32, *rng.pick(&[0u64, 0, 1, 5]))).collect();
            let mut abandon = Vec::new();
            if rng.chance(300) {
                for _ in 0..rng.range(1, 2) {
                    let t = rng.below(nt as u64) as u32;
                    abandon.push((t, rng.below(tasks[t as usize] as u64) as u32));
                }
            }
            let mut expired = Vec::new();
            if rng.chance(300) {
                for _ in 0..rng.range(1, 4) {
                    let t = rng.below(nt as u64) as u32;
                    expired.push((t, rng.below(tasks[t as usize] as u64) as u32));
                }
            }
            let mut unpolled = Vec::new();
            if rng.chance(250) {
                for _ in 0..rng.range(1, 3) {
                    let t = rng.below(nt as u64) as u32;
                    unpolled.push((t, rng.below(tasks[t as usize] as u64) as u32));
                }
            }
            let mut batch_order: Vec<u32> = Vec::new();
            if rng.chance(250) {
                let n = rng.range(2, 7) as u32;
                batch_order = (0..n).collect();
                // Fisher-Yates with the scenario's own generator
                for i in (1..n as usize).rev() {
                    let j = rng.below(i as u64 + 1) as usize;
                    batch_order.swap(i, j);
                }
            }
            StubScn::RoundRobin { backends, tasks, latency, abandon, preempt_permille: *rng.pick(&[0u32, 100, 400, 800]), expired, unpolled, batch_order, observe: rng.chance(250) }
        }
        6 | 7 => StubScn::Hash {
            backends: rng.range(1, 5) as usize,
            hasher: rng.below(4) as u8,
            reqs: (0..rng.range(1, 12)).map(|_| *rng.pick(&[0u64, 1, 2, 3, 7, u64::MAX, 1 << 63, 12345])).collect(),
            clones: if rng.chance(500) { rng.range(1, 3) as u8 } else { 0 },
        },
        _ => {
            let n = rng.range(1, 8) as usize;
            StubScn::Retry {
                results: (0..n).map(|_| *rng.pick(&[0u8, 1, 1, 2, 3])).collect(),
                max_attempts: rng.range(0, 8) as u32,
                retry_ok_below: if rng.chance(300) { rng.range(1, 4) as u32 } else { 0 },
                latency_yields: rng.below(3) as u32,
                deadline_ms: *rng.pick(&[0u64, 5, 5, 20, 10_000]),
                attempt_ms: *rng.pick(&[0u64, 0, 3, 8, 30]),
                abandon_first: rng.chance(250),
                subscriber: if rng.chance(300) { 1 } else { 0 },
            }
        }
    }
}

/// Trace id (folded to 62 bits) and sampling decision in one number.
fn trace_fold(t: &tarpc::trace::Context) -> i64 {
    let id = u128::from(t.trace_id);
    let folded = ((id >> 64) as u64 ^ id as u64) >> 2;
    ((folded << 1) | (t.sampling_decision == tarpc::trace::SamplingDecision::Sampled) as u64) as i64
}

fn viol(rule: &str, tags: &[&str], detail: String) -> Violation {
    Violation { prop: "C20", rule: rule.to_string(), tags: tags.iter().map(|s| s.to_string()).collect(), detail }
}

/// A backend that logs which call it received and answers after a scripted latency.
impl std::fmt::Debug for Backend {
    fn fmt(&self, f: &mut std::fmt::Formatter<'_>) -> std::fmt::Result {
        write!(f, "Backend({})", self.idx)
    }
}

#[derive(Clone)]
struct Backend {
    idx: usize,
    sim: Rc<Sim>,
    yields: u32,
    sleep_ms: u64,
}

impl Stub for Backend {
    type Req = u64;
    type Resp = u64;
    async fn call(&self, _ctx: context::Context, req: u64) -> Result<u64, RpcError> {
        self.sim.log(EvKind::Note { what: "backend_call", a: self.idx as i64, b: req as i64 });
        for _ in 0..self.yields {
            yield_once().await;
        }
        if self.sleep_ms > 0 {
            tokio::time::sleep(Duration::from_millis(self.sleep_ms)).await;
        }
        preempt("backend:answer");
        Ok(self.idx as u64 * 1_000_000 + req)
    }
}

/// A hasher builder with per-instance state (the mode). Its `Default` is mode 4, a fifth hash
/// function that no scenario asks for, so a copy that falls back to the default is visible.
#[derive(Clone, Debug)]
struct FixedHasher(u8);

impl Default for FixedHasher {
    fn default() -> Self {
        FixedHasher(4)
    }
}
struct FixedH {
    mode: u8,
    sip: std::collections::hash_map::DefaultHasher,
    last: u64,
}
impl BuildHasher for FixedHasher {
    type Hasher = FixedH;
    fn build_hasher(&self) -> FixedH {
        #[allow(deprecated)]
        FixedH { mode: self.0, sip: std::collections::hash_map::DefaultHasher::new(), last: 0 }
    }
}
impl Hasher for FixedH {
    fn finish(&self) -> u64 {
        match self.mode {
            0 => self.sip.finish(),
            1 => 0,
            2 => u64::MAX,
            4 => !self.sip.finish(),
            _ => self.last,
        }
    }
    fn write(&mut self, bytes: &[u8]) {
        self.sip.write(bytes);
        let mut b = [0u8; 8];
        let n = bytes.len().min(8);
        b[..n].copy_from_slice(&bytes[..n]);
        self.last = u64::from_le_bytes(b);
    }
}

/// Backend for Retry: takes Arc<u64>, returns the scripted result of the n-th attempt.
struct RetryBackend {
    sim: Rc<Sim>,
    results: Vec<u8>,
    attempt: RefCell<usize>,
    ptrs: RefCell<Vec<usize>>,
    yields: u32,
    sleep_ms: u64,
}

fn scripted(kind: u8, n: usize) -> Result<u64, RpcError> {
    match kind {
        0 => Ok(7_000 + n as u64),
        1 => Err(RpcError::Server(ServerError::new(std::io::ErrorKind::Other, format!("attempt{n}")))),
        2 => Err(RpcError::DeadlineExceeded),
        _ => Err(RpcError::Shutdown),
    }
}

fn result_code(r: &Result<u64, RpcError>) -> i64 {
    match r {
        Ok(v) => *v as i64,
        Err(RpcError::Server(e)) => -1000 - e.detail.trim_start_matches("attempt").parse::<i64>().unwrap_or(999),
        Err(RpcError::DeadlineExceeded) => -2,
        Err(RpcError::Shutdown) => -3,
        Err(_) => -4,
    }
}

#[derive(Clone)]
struct RetryBackendRef(Rc<RetryBackend>);

impl std::ops::Deref for RetryBackendRef {
    type Target = RetryBackend;
    fn deref(&self) -> &RetryBackend {
        &self.0
    }
}

impl Stub for RetryBackendRef {
    type Req = Arc<u64>;
    type Resp = u64;
    async fn call(&self, ctx: context::Context, req: Arc<u64>) -> Result<u64, RpcError> {
        let n = {
            let mut a = self.attempt.borrow_mut();
            *a += 1;
            *a
        };
        self.ptrs.borrow_mut().push(Arc::as_ptr(&req) as usize);
        self.sim.log(EvKind::Note { what: "retry_backend_call", a: n as i64, b: *req as i64 });
        self.sim.log(EvKind::Note { what: "retry_ctx_deadline", a: n as i64, b: self.sim.ms_of_local(ctx.deadline) });
        self.sim.log(EvKind::Note { what: "retry_ctx_trace", a: n as i64, b: trace_fold(&ctx.trace_context) });
        for _ in 0..self.yields {
            yield_once().await;
        }
        if self.sleep_ms > 0 {
            tokio::time::sleep(std::time::Duration::from_millis(self.sleep_ms)).await;
        }
        let kind = self.results.get(n - 1).copied().unwrap_or(0);
        scripted(kind, n)
    }
}

pub fn run(scn: &StubScn, tape: Tape) -> RunOutput {
    let scn2 = scn.clone();
    let preempt_p = match scn {
        StubScn::RoundRobin { preempt_permille, .. } => *preempt_permille,
        _ => 0,
    };
    let _sub = crate::subscribers::install(match scn {
        StubScn::Retry { subscriber, .. } => *subscriber,
        _ => 0,
    });
    run_sim(
        tape,
        Knobs { preempt_permille: preempt_p, nested_steps: 4, ..Knobs::default() },
        60_000,
        true,
        |sim| {
            let mut tasks = Vec::new();
            let extra: Rc<RefCell<Vec<Violation>>> = Rc::new(RefCell::new(Vec::new()));
            match scn2 {
                StubScn::RoundRobin { backends, tasks: per_task, latency, abandon, expired, unpolled, batch_order, observe, .. } => {
                    let stubs: Vec<Backend> = (0..backends).map(|i| Backend { idx: i, sim: sim.clone(), yields: latency[i].0, sleep_ms: latency[i].1 }).collect();
                    let rr = RoundRobin::new(stubs);
                    if !batch_order.is_empty() {
                        let (rr, sim_t, order) = (rr.clone(), sim.clone(), batch_order.clone());
                        tasks.push(sim.spawn("batch_caller", async move {
                            sim_t.count("probe.stub_calls_driven_out_of_creation_order");
                            let mut futs: Vec<Option<std::pin::Pin<Box<dyn std::future::Future<Output = Result<u64, RpcError>>>>>> = Vec::new();
                            for k in 0..order.len() {
                                let req = 9_000 + k as u64;
                                futs.push(Some(Box::pin(rr.call(context::current(), req))));
                            }
                            for k in order {
                                let req = 9_000 + k as u64;
                                sim_t.log(EvKind::Note { what: "rr_call", a: 99, b: req as i64 });
                                let r = futs[k as usize].take().unwrap().await;
                                sim_t.log(EvKind::Note { what: "rr_done", a: req as i64, b: result_code(&r) });
                            }
                        }));
                    }
                    for (t, n) in per_task.iter().enumerate() {
                        let (rr, sim_t, n, abandon, expired, unpolled) = (rr.clone(), sim.clone(), *n, abandon.clone(), expired.clone(), unpolled.clone());
                        tasks.push(sim.spawn(&format!("caller{t}"), async move {
                            for k in 0..n {
                                let req = (t as u64) * 100 + k as u64;
                                sim_t.log(EvKind::Note { what: "rr_call", a: t as i64, b: req as i64 });
                                if observe {
                                    sim_t.count("probe.stub_rendered_with_debug");
                                    let _ = format!("{rr:?}");
                                }
                                let mut ctx = context::current();
                                if expired.contains(&(t as u32, k)) {
                                    ctx.deadline = sim_t.instant_at(sim_t.now_ms() - 5);
                                    sim_t.count("probe.stub_call_with_expired_deadline");
                                }
                                if unpolled.contains(&(t as u32, k)) {
                                    let fut = rr.call(ctx, req);
                                    sim_t.count("probe.stub_call_future_dropped_unpolled");
                                    drop(fut);
                                    continue;
                                }
                                if abandon.contains(&(t as u32, k)) {
                                    // poll the call once, then drop it
                                    let mut fut = Box::pin(rr.call(ctx, req));
                                    let _ = futures::poll!(fut.as_mut());
                                    sim_t.count("fault.stub_call_abandoned");
                                    drop(fut);
                                    continue;
                                }
                                let r = rr.call(ctx, req).await;
                                sim_t.log(EvKind::Note { what: "rr_done", a: req as i64, b: result_code(&r) });
                            }
                        }));
                    }
                }
                StubScn::Hash { backends, hasher, reqs, clones } => {
                    let stubs: Vec<Backend> = (0..backends).map(|i| Backend { idx: i, sim: sim.clone(), yields: 0, sleep_ms: 0 }).collect();
                    let ch = ConsistentHash::with_hasher(stubs, FixedHasher(hasher)).expect("len fits u64");
                    let sim_t = sim.clone();
                    tasks.push(sim.spawn("hash_caller", async move {
                        let mut handles = vec![ch.clone()];
                        for _ in 0..clones {
                            // clones of clones too
                            let c = handles.last().unwrap().clone();
                            handles.push(c);
                        }
                        handles[0] = ch;
                        for (i, r) in reqs.into_iter().enumerate() {
                            if clones % 2 == 1 {
                                let _ = format!("{:?}", handles[i % handles.len()]);
                            }
                            let res = handles[i % handles.len()].call(context::current(), r).await;
                            sim_t.log(EvKind::Note { what: "hash_done", a: r as i64, b: result_code(&res) });
                        }
                    }));
                }
                StubScn::Retry { results, max_attempts, retry_ok_below, latency_yields, deadline_ms, attempt_ms, abandon_first, .. } => {
                    let latency_yields = if abandon_first { latency_yields.max(1) } else { latency_yields };
                    let be = RetryBackendRef(Rc::new(RetryBackend { sim: sim.clone(), results, attempt: RefCell::new(0), ptrs: RefCell::new(Vec::new()), yields: latency_yields, sleep_ms: attempt_ms }));
                    let sim_p = sim.clone();
                    let policy = move |r: &Result<u64, RpcError>, attempt: u32| {
                        sim_p.log(EvKind::Note { what: "policy", a: attempt as i64, b: result_code(r) });
                        let again = match r {
                            Err(_) => attempt < max_attempts,
                            Ok(_) => attempt < retry_ok_below,
                        };
                        sim_p.log(EvKind::Note { what: "policy_says", a: attempt as i64, b: again as i64 });
                        again
                    };
                    let retry = Retry::new(be.clone(), policy);
                    let (sim_t, extra_t) = (sim.clone(), extra.clone());
                    tasks.push(sim.spawn("retry_caller", async move {
                        if abandon_first {
                            let mut fut = Box::pin(retry.call(context::current(), 41u64));
                            let _ = futures::poll!(fut.as_mut());
                            drop(fut);
                            sim_t.count("fault.stub_call_abandoned");
                            sim_t.log(EvKind::Note { what: "retry_first_abandoned", a: 0, b: 0 });
                            be.ptrs.borrow_mut().clear();
                        }
                        let mut ctx = context::current();
                        // a caller-supplied trace context that differs from the default one
                        ctx.trace_context.trace_id = tarpc::trace::TraceId::from(0x7a5c_0000_0000_0000_0000_0000_0000_0042u128);
                        ctx.trace_context.sampling_decision = tarpc::trace::SamplingDecision::Sampled;
                        ctx.deadline = sim_t.instant_at(sim_t.now_ms() + deadline_ms as i64);
                        sim_t.log(EvKind::Note { what: "retry_caller_deadline", a: 0, b: sim_t.ms_of_local(ctx.deadline) });
                        sim_t.log(EvKind::Note { what: "retry_caller_trace", a: 0, b: trace_fold(&ctx.trace_context) });
                        let r = retry.call(ctx, 42u64).await;
                        sim_t.log(EvKind::Note { what: "retry_done", a: 0, b: result_code(&r) });
                        let ptrs = be.ptrs.borrow();
                        if ptrs.windows(2).any(|w| w[0] != w[1]) {
                            extra_t.borrow_mut().push(viol("retry-request-not-shared", &[], "attempts did not carry the identical (Arc-shared) request".into()));
                        }
                    }));
                }
            }
            (tasks, extra)
        },
        |sim, st| {
            if st.0.iter().all(|t| sim.is_done(*t)) {
                IdleAct::Stop
            } else {
                IdleAct::Wait
            }
        },
        |sim, st, end| {
            let mut v = std::mem::take(&mut *st.1.borrow_mut());
            {
                let log = sim.log.borrow();
                v.extend(check(scn, &log, sim));
            }
            if !st.0.iter().all(|t| sim.is_done(*t)) && !sim.overrun.get() && sim.panics.borrow().is_empty() {
                v.push(viol("hang", &[], "a stub call never completed".into()));
            }
            crate::finish_output(sim, v, end, "stubs")
        },
    )
}

pub fn check(scn: &StubScn, log: &[Ev], sim: &Sim) -> Vec<Violation> {
    let mut v = Vec::new();
    match scn {
        StubScn::RoundRobin { backends, .. } => {
            let mut counts = vec![0i64; *backends];
            let mut concurrent = 0;
            let mut open = 0i64;
            for e in log {
                match &e.kind {
                    EvKind::Note { what: "teardown", .. } => break,
                    EvKind::Note { what: "rr_call", .. } => {
                        open += 1;
                        if open > 1 {
                            concurrent += 1;
                        }
                    }
                    EvKind::Note { what: "rr_done", a, b } => {
                        open -= 1;
                        // the value comes from the backend that was selected, unchanged
                        if *b >= 0 && (*b % 1_000_000) != *a {
                            v.push(viol("rr-result-changed", &[], format!("call {a} returned {b}")));
                        }
                    }
                    EvKind::Note { what: "backend_call", a, .. } => {
                        let i = *a as usize;
                        if i >= counts.len() {
                            v.push(viol("rr-range", &[], format!("backend index {i} out of range")));
                            continue;
                        }
                        counts[i] += 1;
                        let (mx, mn) = (counts.iter().max().unwrap(), counts.iter().min().unwrap());
                        if mx - mn > 1 {
                            v.push(viol("rr-imbalance", &[], format!("after a selection at seq {} the per-backend counts are {:?}", e.seq, counts)));
                            break;
                        }
                    }
                    _ => {}
                }
            }
            if concurrent > 0 {
                sim.count("probe.concurrent_stub_calls");
            }
        }
        StubScn::Hash { backends, .. } => {
            let mut seen: HashMap<i64, i64> = HashMap::new();
            for e in log {
                if let EvKind::Note { what: "backend_call", a, b } = &e.kind {
                    if *a as usize >= *backends {
                        v.push(viol("hash-range", &[], format!("backend index {a} out of range")));
                    }
                    if let Some(prev) = seen.insert(*b, *a) {
                        if prev != *a {
                            v.push(viol("hash-unstable", &[], format!("request {b} went to backend {prev} and later to backend {a}")));
                        }
                    }
                }
            }
        }
        StubScn::Retry { results, max_attempts, retry_ok_below, abandon_first, .. } => {
            // only the call issued after an abandoned one (if any) is judged; the abandoned
            // call used up the backend's first scripted result
            let start = log.iter().position(|e| matches!(&e.kind, EvKind::Note { what: "retry_first_abandoned", .. })).map(|i| i + 1).unwrap_or(0);
            let log = &log[start..];
            let off = if *abandon_first { 1usize } else { 0 };
            // reference model of the retry loop
            let mut want_attempts = 0usize;
            let want_last;
            loop {
                want_attempts += 1;
                let kind = results.get(want_attempts - 1 + off).copied().unwrap_or(0);
                let r = scripted(kind, want_attempts + off);
                let again = match &r {
                    Err(_) => (want_attempts as u32) < *max_attempts,
                    Ok(_) => (want_attempts as u32) < *retry_ok_below,
                };
                if !again {
                    want_last = result_code(&r);
                    break;
                }
                if want_attempts > 100 {
                    want_last = i64::MIN;
                    break;
                }
            }
            let policy_attempts: Vec<i64> = log.iter().filter_map(|e| match &e.kind { EvKind::Note { what: "policy", a, .. } => Some(*a), _ => None }).collect();
            let backend_calls = log.iter().filter(|e| matches!(&e.kind, EvKind::Note { what: "retry_backend_call", .. })).count();
            let done = log.iter().find_map(|e| match &e.kind { EvKind::Note { what: "retry_done", b, .. } => Some(*b), _ => None });
            let expect: Vec<i64> = (1..=want_attempts as i64).collect();
            if policy_attempts != expect {
                v.push(viol("retry-attempt-numbers", &[], format!("policy saw attempt numbers {policy_attempts:?}, expected {expect:?}")));
            }
            if backend_calls != want_attempts {
                v.push(viol("retry-count", &[], format!("backend called {backend_calls} times, the policy asks for {want_attempts}")));
            }
            if let Some(d) = done {
                if d != want_last {
                    v.push(viol("retry-result", &[], format!("returned result code {d}, the last attempt produced {want_last}")));
                }
            }
            // every attempt is issued with the caller's own context: a retry is the same call,
            // so it neither gets more time than the caller allowed nor another trace
            let caller_deadline = log.iter().find_map(|e| match &e.kind { EvKind::Note { what: "retry_caller_deadline", b, .. } => Some(*b), _ => None });
            let caller_trace = log.iter().find_map(|e| match &e.kind { EvKind::Note { what: "retry_caller_trace", b, .. } => Some(*b), _ => None });
            for e in log {
                match &e.kind {
                    EvKind::Note { what: "retry_ctx_deadline", a, b } if Some(*b) != caller_deadline => {
                        let d = caller_deadline.unwrap_or(0);
                        v.push(viol("retry-context-changed", &["deadline"], format!("attempt {a} was issued with deadline {b}, the caller's deadline is {d}")));
                        v.push(Violation { prop: "C07", rule: if *b > d { "stretched" } else { "earlier" }.to_string(), tags: vec!["retry".to_string()], detail: format!("retry attempt {a} was issued with deadline {b}, the caller's deadline is {d}") });
                    }
                    EvKind::Note { what: "retry_ctx_trace", a, b } if Some(*b) != caller_trace => {
                        v.push(viol("retry-context-changed", &["trace"], format!("attempt {a} was issued with another trace id")));
                        v.push(Violation { prop: "C18", rule: "trace-id-changed".to_string(), tags: vec!["retry".to_string()], detail: format!("retry attempt {a} was issued with a trace id other than the caller's") });
                    }
                    _ => {}
                }
            }
            // every attempt's request value
            for e in log {
                if let EvKind::Note { what: "retry_backend_call", b, .. } = &e.kind {
                    if *b != 42 {
                        v.push(viol("retry-request-changed", &[], format!("attempt carried request {b}")));
                    }
                }
            }
        }
    }
    for (task, msg) in sim.panics.borrow().iter() {
        v.push(viol("panic", &[crate::panic_class(msg)], format!("task {} panicked: {}", sim.names.borrow()[*task], msg)));
    }
    v
}
