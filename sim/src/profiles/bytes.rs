//! P-bytes / P-mem: the shipped transports. Round trips of protocol-message sequences through
//! `serde_transport` (JSON, bincode) over a fragmenting `SimPipe` and through the in-memory
//! channels (C15, C07 default deadline), and an adversarial peer feeding raw bytes to a real
//! server channel / client dispatch (C16).

use std::pin::Pin;
use crate::exec::{run_sim, IdleAct, Knobs, Sim};
use crate::hist::EvKind;
use crate::pipe::{self, pipe, End, PipeCfg};
use crate::tape::{Rng, Tape};
use crate::{RunOutput, Violation};
use futures::{Sink, SinkExt, Stream, StreamExt};
use serde::{de::DeserializeOwned, Deserialize, Serialize};
use std::cell::RefCell;
use std::io;
use std::rc::Rc;
use std::time::Duration;
use tarpc::{context, trace, ClientMessage, Request, Response, ServerError};
use tokio_serde::formats::{Bincode, Json};
use tokio_util::codec::{Framed, LengthDelimitedCodec};

pub const KINDS: &[io::ErrorKind] = &[
    io::ErrorKind::NotFound,
    io::ErrorKind::PermissionDenied,
    io::ErrorKind::ConnectionRefused,
    io::ErrorKind::ConnectionReset,
    io::ErrorKind::ConnectionAborted,
    io::ErrorKind::NotConnected,
    io::ErrorKind::AddrInUse,
    io::ErrorKind::AddrNotAvailable,
    io::ErrorKind::BrokenPipe,
    io::ErrorKind::AlreadyExists,
    io::ErrorKind::WouldBlock,
    io::ErrorKind::InvalidInput,
    io::ErrorKind::InvalidData,
    io::ErrorKind::TimedOut,
    io::ErrorKind::WriteZero,
    io::ErrorKind::Interrupted,
    io::ErrorKind::Other,
    io::ErrorKind::UnexpectedEof,
    // not portable: must degrade to Other
    io::ErrorKind::HostUnreachable,
    io::ErrorKind::NetworkUnreachable,
    io::ErrorKind::NetworkDown,
    io::ErrorKind::NotADirectory,
    io::ErrorKind::IsADirectory,
    io::ErrorKind::DirectoryNotEmpty,
    io::ErrorKind::ReadOnlyFilesystem,
    io::ErrorKind::StaleNetworkFileHandle,
    io::ErrorKind::StorageFull,
    io::ErrorKind::NotSeekable,
    io::ErrorKind::FileTooLarge,
    io::ErrorKind::ResourceBusy,
    io::ErrorKind::ExecutableFileBusy,
    io::ErrorKind::Deadlock,
    io::ErrorKind::TooManyLinks,
    io::ErrorKind::ArgumentListTooLong,
    io::ErrorKind::Unsupported,
    io::ErrorKind::OutOfMemory,
];
pub const PORTABLE: usize = 18;

#[derive(Clone, Debug, Serialize, Deserialize, PartialEq)]
pub enum BodySpec {
    Empty,
    Small(u64),
    Unicode,
    Large(u32),
}

fn body(b: &BodySpec) -> String {
    match b {
        BodySpec::Empty => String::new(),
        BodySpec::Small(x) => format!("b{x}"),
        BodySpec::Unicode => "héllo wörld — 你好 🌍 \u{0}\u{7f}\n\"\\".to_string(),
        BodySpec::Large(kib) => "x".repeat(*kib as usize * 1024),
    }
}

#[derive(Clone, Debug, Serialize, Deserialize, PartialEq)]
pub enum MsgSpec {
    Req { id: u64, body: BodySpec, deadline_ms: u64, trace: u64, span: u64, sampled: bool },
    Cancel { id: u64, trace: u64, span: u64, sampled: bool },
    RespOk { id: u64, body: BodySpec },
    RespErr { id: u64, kind: u8, detail: BodySpec },
}

pub fn trace_of(seed: u64) -> u128 {
    match seed {
        0 => 0,
        1 => 1,
        2 => u128::MAX,
        3 => 1u128 << 64,
        x => crate::profiles::client::trace128(x),
    }
}

fn tctx(trace: u64, span: u64, sampled: bool) -> trace::Context {
    trace::Context {
        trace_id: trace::TraceId::from(trace_of(trace)),
        span_id: trace::SpanId::from(span),
        sampling_decision: if sampled { trace::SamplingDecision::Sampled } else { trace::SamplingDecision::Unsampled },
    }
}

/// Normal form of a message for comparison.
#[derive(Clone, Debug, PartialEq)]
pub struct Norm {
    pub kind: &'static str,
    pub id: u64,
    pub body: String,
    pub trace: u128,
    pub span: u64,
    pub sampled: bool,
    pub errkind: String,
    /// absolute virtual microseconds of the deadline (requests only)
    pub deadline_us: i128,
}

pub trait Wire: Serialize + DeserializeOwned + Unpin + 'static {
    fn build(sim: &Sim, s: &MsgSpec) -> Option<Self>;
    fn norm(&self, sim: &Sim) -> Norm;
}

impl Wire for ClientMessage<String> {
    fn build(sim: &Sim, s: &MsgSpec) -> Option<Self> {
        match s {
            MsgSpec::Req { id, body: b, deadline_ms, trace, span, sampled } => {
                let mut ctx = context::current();
                // deadlines are not aligned to whole milliseconds in general: sampled requests
                // carry a sub-millisecond part derived from their trace seed
                let frac_us = if *sampled { *trace % 1000 } else { 0 };
                ctx.deadline = sim.instant_at(sim.now_ms() + *deadline_ms as i64) + Duration::from_micros(frac_us);
                ctx.trace_context = tctx(*trace, *span, *sampled);
                Some(ClientMessage::Request(Request { context: ctx, id: *id, message: body(b) }))
            }
            MsgSpec::Cancel { id, trace, span, sampled } => {
                Some(ClientMessage::Cancel { trace_context: tctx(*trace, *span, *sampled), request_id: *id })
            }
            _ => None,
        }
    }
    fn norm(&self, sim: &Sim) -> Norm {
        match self {
            ClientMessage::Request(r) => Norm {
                kind: "req",
                id: r.id,
                body: r.message.clone(),
                trace: u128::from(r.context.trace_context.trace_id),
                span: u64::from(r.context.trace_context.span_id),
                sampled: r.context.trace_context.sampling_decision == trace::SamplingDecision::Sampled,
                errkind: String::new(),
                deadline_us: sim.micros_of(r.context.deadline),
            },
            ClientMessage::Cancel { trace_context, request_id } => Norm {
                kind: "cancel",
                id: *request_id,
                body: String::new(),
                trace: u128::from(trace_context.trace_id),
                span: u64::from(trace_context.span_id),
                sampled: trace_context.sampling_decision == trace::SamplingDecision::Sampled,
                errkind: String::new(),
                deadline_us: 0,
            },
            _ => Norm { kind: "other", id: 0, body: String::new(), trace: 0, span: 0, sampled: false, errkind: String::new(), deadline_us: 0 },
        }
    }
}

impl Wire for Response<String> {
    fn build(_sim: &Sim, s: &MsgSpec) -> Option<Self> {
        match s {
            MsgSpec::RespOk { id, body: b } => Some(Response { request_id: *id, message: Ok(body(b)) }),
            MsgSpec::RespErr { id, kind, detail } => Some(Response {
                request_id: *id,
                message: Err(ServerError::new(KINDS[*kind as usize % KINDS.len()], body(detail))),
            }),
            _ => None,
        }
    }
    fn norm(&self, _sim: &Sim) -> Norm {
        match &self.message {
            Ok(b) => Norm { kind: "ok", id: self.request_id, body: b.clone(), trace: 0, span: 0, sampled: false, errkind: String::new(), deadline_us: 0 },
            Err(e) => Norm { kind: "err", id: self.request_id, body: e.detail.clone(), trace: 0, span: 0, sampled: false, errkind: format!("{:?}", e.kind), deadline_us: 0 },
        }
    }
}

#[derive(Clone, Debug, Serialize, Deserialize, PartialEq)]
pub enum Medium {
    SerdeJson,
    SerdeBincode,
    MemUnbounded,
    MemBounded(usize),
}

#[derive(Clone, Debug, Serialize, Deserialize, PartialEq)]
pub enum EndKind {
    Drop,
    Close,
}

#[derive(Clone, Debug, Serialize, Deserialize)]
pub struct RtScn {
    pub medium: Medium,
    /// false: ClientMessage direction, true: Response direction
    pub responses: bool,
    pub msgs: Vec<MsgSpec>,
    pub pipe: PipeCfg,
    pub end: EndKind,
    /// feed everything then flush once (true) or flush after every message (false)
    pub batch: bool,
    /// JSON only: append a Cancel frame without trace_context and a Request frame without deadline
    pub optional_fields: bool,
    /// virtual ms the writer waits between messages
    pub gap_ms: u64,
    /// the reader starts this many virtual ms late (a backlog builds up, the writer may be gone)
    #[serde(default)]
    pub reader_delay_ms: u64,
    /// After the reading end has seen end-of-stream it writes the first `back_msgs` messages back
    /// (fed, not flushed) and closes; the writing end, which closed (not dropped) its own write
    /// side, must read them all and then end-of-stream. 0: one direction only.
    #[serde(default)]
    pub back_msgs: u8,
    /// Serde media only: the byte stream starts with one raw length-delimited preface frame that
    /// the reading end consumes from its `Framed` *before* handing it to `serde_transport::new`
    /// (a handshake); protocol frames pipelined behind it may already sit in the read buffer.
    #[serde(default)]
    pub preface: bool,
    /// Serde media only: both ends send the whole message list to each other at the same time,
    /// each driven dispatcher-style (one task that pumps its writes and its reads in every poll),
    /// over a pipe far smaller than what either side has to write. Neither direction may wait for
    /// the other: every message arrives, then end-of-stream, on both sides.
    #[serde(default)]
    pub duplex: bool,
    /// Serde media only: both ends frame with a 2-byte length prefix (a `length_delimited`
    /// builder handed to `serde_transport::new`). A message too long for that prefix is refused
    /// when it is handed to the sink; whatever was accepted must arrive intact and in order.
    #[serde(default)]
    pub narrow: bool,
}

const PREFACE: &[u8] = b"tarpc-sim preface frame";

#[derive(Clone, Debug, Serialize, Deserialize, PartialEq)]
pub enum AdvMsg {
    Req { id: u64, secs: u64, nanos: u32, body: u64 },
    Cancel { id: u64 },
    Resp { id: u64, body: u64 },
}

#[derive(Clone, Debug, Serialize, Deserialize, PartialEq)]
pub enum Chunk {
    Valid(AdvMsg),
    /// A frame of the right length whose payload has bits flipped (pos is modulo payload length).
    Flipped { base: AdvMsg, flips: Vec<(u32, u8)> },
    /// A well-framed payload of random bytes.
    Garbage { seed: u64, len: u32 },
    Flood { base: AdvMsg, n: u32 },
    /// A valid payload with runs of bytes doubled (kind 0), removed (kind 1) or overwritten with a
    /// character that means something to the format (kind 2), re-framed with the right length:
    /// numbers, strings and sequences come out longer, shorter or differently typed than any
    /// well-behaved encoder would make them.
    Spliced { base: AdvMsg, edits: Vec<(u32, u8, u8)> },
}

#[derive(Clone, Debug, Serialize, Deserialize, PartialEq)]
pub enum Tail {
    /// After the chunks a well-formed probe request must be served (or the connection must have
    /// reported an error).
    Probe,
    /// A frame cut short by EOF: must be reported as an error.
    TruncatedEof { base: AdvMsg, keep: u32 },
    /// A length prefix above the codec's frame limit: must be reported as an error.
    OversizedPrefix(u32),
    /// Unframed random bytes then EOF: anything but a panic or a hang.
    RawEof { seed: u64, len: u32 },
}

#[derive(Clone, Debug, Serialize, Deserialize)]
pub struct AdvScn {
    pub bincode: bool,
    /// false: adversary attacks a server channel; true: adversary attacks a client dispatch
    pub attack_client: bool,
    pub chunks: Vec<Chunk>,
    pub tail: Tail,
    pub pipe: PipeCfg,
    pub subscriber: u8,
}

#[derive(Clone, Debug, Serialize, Deserialize)]
pub enum BytesScn {
    Roundtrip(RtScn),
    Adversary(AdvScn),
}

impl BytesScn {
    pub fn valid(&self) -> bool {
        match self {
            BytesScn::Roundtrip(r) => {
                r.msgs.iter().all(|m| match m {
                    MsgSpec::Req { .. } | MsgSpec::Cancel { .. } => !r.responses,
                    _ => r.responses,
                }) && !matches!(r.medium, Medium::MemBounded(0))
                    && r.pipe.pending_permille <= 900
            }
            BytesScn::Adversary(a) => a.pipe.pending_permille <= 900,
        }
    }
}

fn gen_pipe(rng: &mut Rng) -> PipeCfg {
    let mut p = gen_pipe_raw(rng);
    if p.latency_ms > 0 {
        // a 1-byte window with per-chunk latency only makes runs long, not interesting
        p.cap = 0;
    }
    p
}

fn gen_pipe_raw(rng: &mut Rng) -> PipeCfg {
    PipeCfg {
        pending_permille: *rng.pick(&[0u32, 0, 100, 400]),
        partial_permille: *rng.pick(&[0u32, 300, 800, 1000]),
        cap: *rng.pick(&[0usize, 0, 1, 7, 64]),
        max_read: *rng.pick(&[0usize, 0, 0, 1, 3]),
        latency_ms: *rng.pick(&[0u64, 0, 0, 3, 40]),
    }
}

const YEAR_MS: u64 = 365 * 86_400_000;

pub fn gen_roundtrip(rng: &mut Rng) -> BytesScn {
    let mut scn = gen_roundtrip_inner(rng);
    if let BytesScn::Roundtrip(r) = &mut scn {
        let serde = matches!(r.medium, Medium::SerdeJson | Medium::SerdeBincode);
        if serde && !r.optional_fields && r.msgs.len() <= 40 && rng.chance(150) {
            r.duplex = true;
            r.preface = false;
            r.back_msgs = 0;
            r.reader_delay_ms = 0;
            r.end = EndKind::Close;
            r.pipe.cap = *rng.pick(&[8usize, 32, 64]);
            r.pipe.latency_ms = 0;
            // make sure both sides have more to write than the pipe holds
            for m in r.msgs.iter_mut() {
                match m {
                    MsgSpec::Req { body, .. } | MsgSpec::RespOk { body, .. } | MsgSpec::RespErr { detail: body, .. } => {
                        if rng.chance(500) {
                            *body = BodySpec::Large(1);
                        }
                    }
                    _ => {}
                }
            }
        } else if serde && r.msgs.len() <= 40 && r.pipe.max_read == 0 && rng.chance(100) {
            r.narrow = true;
            r.preface = false;
            r.optional_fields = false;
            r.back_msgs = 0;
            // now and then a body that no 2-byte prefix can express, anywhere in the sequence
            if !r.msgs.is_empty() && rng.chance(600) {
                let at = rng.below(r.msgs.len() as u64) as usize;
                match &mut r.msgs[at] {
                    MsgSpec::Req { body, .. } | MsgSpec::RespOk { body, .. } | MsgSpec::RespErr { detail: body, .. } => *body = BodySpec::Large(64),
                    _ => {}
                }
            }
        }
    }
    scn
}

fn gen_roundtrip_inner(rng: &mut Rng) -> BytesScn {
    let medium = match rng.below(8) {
        0..=2 => Medium::SerdeJson,
        3..=5 => Medium::SerdeBincode,
        6 => Medium::MemUnbounded,
        _ => Medium::MemBounded(rng.range(1, 3) as usize),
    };
    let responses = rng.chance(500);
    let n = rng.range(0, 12) as usize;
    let ids = [0u64, 1, 2, 1 << 32, u64::MAX];
    let mut msgs = Vec::new();
    for i in 0..n {
        let b = match rng.below(10) {
            0 => BodySpec::Empty,
            1 => BodySpec::Unicode,
            2 => BodySpec::Large(*rng.pick(&[1u32, 64])),
            _ => BodySpec::Small(i as u64),
        };
        let id = if rng.chance(400) { *rng.pick(&ids) } else { rng.below(1000) };
        let trace = if rng.chance(400) { rng.below(4) } else { rng.next() | 8 };
        let span = *rng.pick(&[0u64, 1, u64::MAX, 77, 123456789]);
        if responses {
            if rng.chance(500) {
                msgs.push(MsgSpec::RespOk { id, body: b });
            } else {
                msgs.push(MsgSpec::RespErr { id, kind: rng.below(KINDS.len() as u64) as u8, detail: b });
            }
        } else if rng.chance(700) {
            msgs.push(MsgSpec::Req { id, body: b, deadline_ms: *rng.pick(&[0u64, 1, 50, 1000, 10_000, 3_600_000, 3_600_000, 29 * YEAR_MS, 40 * YEAR_MS, 100 * YEAR_MS]), trace, span, sampled: rng.chance(500) });
        } else {
            msgs.push(MsgSpec::Cancel { id, trace, span, sampled: rng.chance(500) });
        }
    }
    let mut pipe_cfg = gen_pipe(rng);
    let mut reader_delay_ms = 0;
    let long_backlog = rng.chance(80);
    if long_backlog {
        // more messages than one task poll may receive (tokio's cooperative budget is 128),
        // all written before the reader starts
        let n_long = *rng.pick(&[129usize, 130, 200, 300]);
        msgs.clear();
        for i in 0..n_long {
            if responses {
                msgs.push(MsgSpec::RespOk { id: i as u64, body: BodySpec::Small(i as u64) });
            } else {
                msgs.push(MsgSpec::Cancel { id: i as u64, trace: 9, span: 7, sampled: false });
            }
        }
        reader_delay_ms = 2;
        pipe_cfg = PipeCfg { pending_permille: 0, partial_permille: *rng.pick(&[0u32, 300]), cap: 0, max_read: 0, latency_ms: 0 };
    }
    if pipe_cfg.max_read > 0 || pipe_cfg.cap == 1 || pipe_cfg.pending_permille >= 400 {
        // keep byte-by-byte configurations cheap: no 64 KiB bodies
        for m in msgs.iter_mut() {
            match m {
                MsgSpec::Req { body, .. } | MsgSpec::RespOk { body, .. } | MsgSpec::RespErr { detail: body, .. } => {
                    if matches!(body, BodySpec::Large(_)) {
                        *body = BodySpec::Small(9);
                    }
                }
                _ => {}
            }
        }
    }
    let medium_is_serde = matches!(medium, Medium::SerdeJson | Medium::SerdeBincode);
    BytesScn::Roundtrip(RtScn {
        optional_fields: medium == Medium::SerdeJson && !responses && rng.chance(300),
        medium,
        responses,
        msgs,
        pipe: pipe_cfg,
        end: if rng.chance(500) { EndKind::Drop } else { EndKind::Close },
        batch: rng.chance(400) || long_backlog,
        gap_ms: if long_backlog { 0 } else { *rng.pick(&[0u64, 0, 1, 7]) },
        reader_delay_ms,
        back_msgs: if !long_backlog && rng.chance(300) { rng.range(1, 3) as u8 } else { 0 },
        preface: matches!(medium_is_serde, true) && rng.chance(250),
        duplex: false,
        narrow: false,
    })
}

fn gen_adv_msg(rng: &mut Rng, attack_client: bool) -> AdvMsg {
    let id = *rng.pick(&[0u64, 1, 7, 424242, u64::MAX, 1 << 40]);
    if attack_client {
        return AdvMsg::Resp { id, body: rng.below(100) };
    }
    if rng.chance(250) {
        return AdvMsg::Cancel { id };
    }
    let (secs, nanos) = match rng.below(12) {
        0 => (0, 0),
        1 => (0, 1),
        2 => ((1u64 << 36) / 1000 - 1, 0),
        3 => ((1u64 << 36) / 1000 + 1, 0),
        4 => (100 * 365 * 86400, 0),
        5 => (u64::MAX, 0),
        6 => (u64::MAX, 999_999_999),
        7 => (u64::MAX / 2, 5),
        8 => (1, u32::MAX),
        9 => (8000 * 365 * 86400, 0),
        _ => (rng.below(20), 0),
    };
    AdvMsg::Req { id, secs, nanos, body: rng.below(100) }
}

pub fn gen_adversary(rng: &mut Rng) -> BytesScn {
    let attack_client = rng.chance(350);
    let n = rng.range(0, 6);
    let mut chunks = Vec::new();
    for _ in 0..n {
        let base = gen_adv_msg(rng, attack_client);
        chunks.push(match rng.below(10) {
            0..=4 => Chunk::Valid(base),
            5 | 6 => Chunk::Flipped { base, flips: (0..rng.range(1, 4)).map(|_| (rng.below(4096) as u32, rng.below(8) as u8)).collect() },
            7 => Chunk::Garbage { seed: rng.next(), len: rng.range(0, 40) as u32 },
            8 => Chunk::Spliced { base, edits: (0..rng.range(1, 3)).map(|_| (rng.below(4096) as u32, rng.below(3) as u8, rng.below(256) as u8)).collect() },
            _ => Chunk::Flood { base, n: *rng.pick(&[10u32, 100, 400]) },
        });
    }
    let base = gen_adv_msg(rng, attack_client);
    let tail = match rng.below(10) {
        0..=5 => Tail::Probe,
        6 | 7 => Tail::TruncatedEof { base, keep: rng.below(64) as u32 },
        8 => Tail::OversizedPrefix(*rng.pick(&[8 * 1024 * 1024 + 1, 1u32 << 31, u32::MAX])),
        _ => Tail::RawEof { seed: rng.next(), len: rng.range(1, 64) as u32 },
    };
    BytesScn::Adversary(AdvScn {
        bincode: rng.chance(500),
        attack_client,
        chunks,
        tail,
        pipe: PipeCfg { pending_permille: *rng.pick(&[0u32, 100]), partial_permille: *rng.pick(&[0u32, 500, 1000]), cap: 0, max_read: *rng.pick(&[0usize, 0, 1, 5]), latency_ms: 0 },
        subscriber: rng.below(3) as u8,
    })
}

fn viol(prop: &'static str, rule: &str, tags: &[&str], detail: String) -> Violation {
    Violation { prop, rule: rule.to_string(), tags: tags.iter().map(|s| s.to_string()).collect(), detail }
}

// ------------------------------------------------------------------------------------------
// Round trips

struct RtShared {
    received: Vec<(Norm, i64)>,
    /// what the writing end read back after closing its write side, and how that ended
    received_back: Vec<Norm>,
    back_written: Vec<Norm>,
    back_done: Option<Result<(), String>>,
    back_write_err: Option<String>,
    reader_done: Option<Result<(), String>>,
    enc_times: Vec<(i128, i128)>, // (deadline_us at build, encode time us)
    /// indices of messages the narrow framing refused at the sink
    refused: Vec<usize>,
}

fn rt_codec(narrow: bool) -> LengthDelimitedCodec {
    if narrow {
        LengthDelimitedCodec::builder().length_field_length(2).new_codec()
    } else {
        LengthDelimitedCodec::new()
    }
}

/// Does the spec carry a body that cannot fit a frame with a 2-byte length prefix?
fn too_long_for_narrow(m: &MsgSpec) -> bool {
    match m {
        MsgSpec::Req { body, .. } | MsgSpec::RespOk { body, .. } | MsgSpec::RespErr { detail: body, .. } => matches!(body, BodySpec::Large(k) if *k >= 64),
        MsgSpec::Cancel { .. } => false,
    }
}

async fn write_all<M: Wire, S, E>(sim: Rc<Sim>, mut sink: S, scn: RtScn, sh: Rc<RefCell<RtShared>>, raw: Option<pipe::DirRef>)
where
    S: Sink<M> + Stream<Item = Result<M, E>> + Unpin,
    <S as Sink<M>>::Error: std::fmt::Debug,
    E: std::fmt::Debug,
{
    if scn.preface {
        if let Some(dir) = &raw {
            pipe::inject(dir, &frame(PREFACE));
        }
    }
    for (i, m) in scn.msgs.iter().enumerate() {
        if scn.gap_ms > 0 && i > 0 {
            tokio::time::sleep(Duration::from_millis(scn.gap_ms)).await;
        }
        let Some(msg) = M::build(&sim, m) else { continue };
        let n = msg.norm(&sim);
        sh.borrow_mut().enc_times.push((n.deadline_us, sim.now_ms() as i128 * 1000));
        sim.log(EvKind::Note { what: "enc", a: i as i64, b: sim.now_ms() });
        let r = if scn.batch { sink.feed(msg).await } else { sink.send(msg).await };
        if r.is_err() && scn.narrow && too_long_for_narrow(m) {
            // refused, as it must be; the sink stays usable
            sim.count("probe.message_refused_by_narrow_framing");
            sim.log(EvKind::Note { what: "refused", a: i as i64, b: 0 });
            let mut s = sh.borrow_mut();
            s.enc_times.pop();
            s.refused.push(i);
            continue;
        }
        if let Err(e) = r {
            sim.log(EvKind::Note { what: "write_err", a: i as i64, b: 0 });
            sh.borrow_mut().reader_done.get_or_insert(Err(format!("writer error: {e:?}")));
            return;
        }
    }
    if let Err(e) = sink.flush().await {
        sh.borrow_mut().reader_done.get_or_insert(Err(format!("writer flush error: {e:?}")));
        return;
    }
    if scn.optional_fields {
        if let Some(dir) = &raw {
            for f in optional_field_frames() {
                pipe::inject(dir, &f);
            }
        }
    }
    match scn.end {
        EndKind::Drop => drop(sink),
        EndKind::Close => {
            let _ = sink.close().await;
            sim.log(EvKind::Note { what: "writer_closed", a: 0, b: 0 });
            if scn.back_msgs > 0 {
                // half-closed: this end keeps reading what the other end writes back
                loop {
                    match sink.next().await {
                        None => {
                            sh.borrow_mut().back_done = Some(Ok(()));
                            break;
                        }
                        Some(Err(e)) => {
                            sh.borrow_mut().back_done = Some(Err(format!("{e:?}")));
                            break;
                        }
                        Some(Ok(m)) => {
                            let mut n = m.norm(&sim);
                            n.deadline_us = 0;
                            sh.borrow_mut().received_back.push(n);
                        }
                    }
                }
                sim.log(EvKind::Note { what: "back_done", a: sh.borrow().received_back.len() as i64, b: 0 });
            }
            // keep the closed writer alive: end-of-stream must come from the close itself
            futures::future::pending::<()>().await;
        }
    }
}

/// One end of a duplex exchange: pumps its writes and its reads in every poll, like tarpc's own
/// dispatch and channel do. `forward`: this is the scenario's writing end (its messages are the
/// ones the one-directional oracle judges).
async fn duplex_end<M: Wire, S, E>(sim: Rc<Sim>, mut t: S, scn: RtScn, sh: Rc<RefCell<RtShared>>, forward: bool)
where
    S: Sink<M> + Stream<Item = Result<M, E>> + Unpin,
    <S as Sink<M>>::Error: std::fmt::Debug,
    E: std::fmt::Debug,
{
    use std::task::Poll;
    let mut next = 0usize;
    let mut closed = false;
    let mut eof = false;
    let record_err = |sh: &Rc<RefCell<RtShared>>, what: String| {
        let mut s = sh.borrow_mut();
        if forward {
            s.back_done.get_or_insert(Err(what));
        } else {
            s.reader_done.get_or_insert(Err(what));
        }
    };
    futures::future::poll_fn(|cx| {
        // write pump
        while next < scn.msgs.len() {
            match Pin::new(&mut t).poll_ready(cx) {
                Poll::Ready(Ok(())) => {
                    let i = next;
                    next += 1;
                    let Some(msg) = M::build(&sim, &scn.msgs[i]) else { continue };
                    let mut n = msg.norm(&sim);
                    if forward {
                        sh.borrow_mut().enc_times.push((n.deadline_us, sim.now_ms() as i128 * 1000));
                        sim.log(EvKind::Note { what: "enc", a: i as i64, b: sim.now_ms() });
                    } else {
                        n.deadline_us = 0;
                        sh.borrow_mut().back_written.push(n);
                    }
                    if let Err(e) = Pin::new(&mut t).start_send(msg) {
                        record_err(&sh, format!("start_send: {e:?}"));
                        return Poll::Ready(());
                    }
                }
                Poll::Ready(Err(e)) => {
                    record_err(&sh, format!("poll_ready: {e:?}"));
                    return Poll::Ready(());
                }
                Poll::Pending => break,
            }
        }
        if !closed {
            if next == scn.msgs.len() {
                match Pin::new(&mut t).poll_close(cx) {
                    Poll::Ready(Ok(())) => closed = true,
                    Poll::Ready(Err(e)) => {
                        record_err(&sh, format!("poll_close: {e:?}"));
                        return Poll::Ready(());
                    }
                    Poll::Pending => {}
                }
            } else if let Poll::Ready(Err(e)) = Pin::new(&mut t).poll_flush(cx) {
                record_err(&sh, format!("poll_flush: {e:?}"));
                return Poll::Ready(());
            }
        }
        // read pump
        while !eof {
            match Pin::new(&mut t).poll_next(cx) {
                Poll::Ready(Some(Ok(m))) => {
                    let mut n = m.norm(&sim);
                    if forward {
                        n.deadline_us = 0;
                        sh.borrow_mut().received_back.push(n);
                    } else {
                        let tnow = sim.now_ms();
                        sim.log(EvKind::Note { what: "dec", a: sh.borrow().received.len() as i64, b: tnow });
                        sh.borrow_mut().received.push((n, tnow));
                    }
                }
                Poll::Ready(Some(Err(e))) => {
                    record_err(&sh, format!("{e:?}"));
                    return Poll::Ready(());
                }
                Poll::Ready(None) => {
                    eof = true;
                    let mut s = sh.borrow_mut();
                    if forward {
                        s.back_done.get_or_insert(Ok(()));
                    } else {
                        s.reader_done.get_or_insert(Ok(()));
                    }
                }
                Poll::Pending => break,
            }
        }
        if closed && eof {
            Poll::Ready(())
        } else {
            Poll::Pending
        }
    })
    .await;
    sim.log(EvKind::Note { what: "duplex_end_done", a: forward as i64, b: 0 });
    // keep the closed end alive: end-of-stream must come from the close itself
    if closed && eof {
        futures::future::pending::<()>().await;
    }
}

fn frame(payload: &[u8]) -> Vec<u8> {
    let mut f = (payload.len() as u32).to_be_bytes().to_vec();
    f.extend_from_slice(payload);
    f
}

/// JSON frames of a peer that omits optional fields.
fn optional_field_frames() -> Vec<Vec<u8>> {
    let cancel = serde_json::json!({"Cancel": {"request_id": 99}});
    let tc = serde_json::to_value(tctx(77, 5, true)).unwrap();
    let req = serde_json::json!({"Request": {"context": {"trace_context": tc}, "id": 98, "message": "nodeadline"}});
    vec![frame(&serde_json::to_vec(&cancel).unwrap()), frame(&serde_json::to_vec(&req).unwrap())]
}

async fn read_all<M: Wire, S, E>(sim: Rc<Sim>, mut stream: S, sh: Rc<RefCell<RtShared>>, delay_ms: u64, scn: RtScn)
where
    S: Stream<Item = Result<M, E>> + Sink<M> + Unpin,
    <S as Sink<M>>::Error: std::fmt::Debug,
    E: std::fmt::Debug,
{
    if delay_ms > 0 {
        tokio::time::sleep(Duration::from_millis(delay_ms)).await;
        sim.count("probe.reader_started_late");
    }
    loop {
        match stream.next().await {
            None => {
                sh.borrow_mut().reader_done.get_or_insert(Ok(()));
                sim.log(EvKind::Note { what: "reader_eof", a: 0, b: 0 });
                if scn.back_msgs > 0 && scn.end == EndKind::Close {
                    sim.count("probe.wrote_back_after_eof");
                    for m in scn.msgs.iter().take(scn.back_msgs as usize) {
                        let Some(msg) = M::build(&sim, m) else { continue };
                        let mut n = msg.norm(&sim);
                        n.deadline_us = 0;
                        // fed, not flushed: closing is what has to push it out
                        if let Err(e) = stream.feed(msg).await {
                            sh.borrow_mut().back_write_err = Some(format!("feed: {e:?}"));
                            return;
                        }
                        sh.borrow_mut().back_written.push(n);
                    }
                    if let Err(e) = stream.close().await {
                        sh.borrow_mut().back_write_err = Some(format!("close: {e:?}"));
                    }
                    sim.log(EvKind::Note { what: "back_closed", a: 0, b: 0 });
                    // keep the closed end alive: end-of-stream must come from the close itself
                    futures::future::pending::<()>().await;
                }
                return;
            }
            Some(Err(e)) => {
                sh.borrow_mut().reader_done.get_or_insert(Err(format!("{e:?}")));
                sim.log(EvKind::Note { what: "reader_err", a: 0, b: 0 });
                return;
            }
            Some(Ok(m)) => {
                let n = m.norm(&sim);
                let t = sim.now_ms();
                sim.log(EvKind::Note { what: "dec", a: sh.borrow().received.len() as i64, b: t });
                sh.borrow_mut().received.push((n, t));
            }
        }
    }
}

/// Builds the reading end's `Framed` and, if the scenario has a preface, consumes it the way an
/// application-level handshake would: from the `Framed` itself, before the serde transport wraps it.
async fn take_preface(sim: &Rc<Sim>, end: End, scn: &RtScn, sh: &Rc<RefCell<RtShared>>) -> Option<(Framed<End, LengthDelimitedCodec>, u64)> {
    let mut f = Framed::new(end, rt_codec(scn.narrow));
    if !scn.preface {
        return Some((f, scn.reader_delay_ms));
    }
    if scn.reader_delay_ms > 0 {
        tokio::time::sleep(Duration::from_millis(scn.reader_delay_ms)).await;
        sim.count("probe.reader_started_late");
    }
    match f.next().await {
        Some(Ok(b)) if &b[..] == PREFACE => {
            if !f.read_buffer().is_empty() {
                sim.count("probe.frames_read_ahead_behind_preface");
            }
            Some((f, 0))
        }
        other => {
            sh.borrow_mut().reader_done.get_or_insert(Err(format!("preface not delivered: {other:?}")));
            None
        }
    }
}

fn spawn_rt<M: Wire>(sim: &Rc<Sim>, scn: &RtScn, sh: &Rc<RefCell<RtShared>>) -> (usize, usize) {
    match &scn.medium {
        Medium::SerdeJson => {
            let (a, b) = pipe(scn.pipe.clone());
            if scn.duplex {
                let w = tarpc::serde_transport::new::<End, M, M, Json<M, M>>(Framed::new(a, LengthDelimitedCodec::new()), Json::default());
                let r = tarpc::serde_transport::new::<End, M, M, Json<M, M>>(Framed::new(b, LengthDelimitedCodec::new()), Json::default());
                let wt = sim.spawn("writer", duplex_end::<M, _, _>(sim.clone(), w, scn.clone(), sh.clone(), true));
                let rt = sim.spawn("reader", duplex_end::<M, _, _>(sim.clone(), r, scn.clone(), sh.clone(), false));
                return (wt, rt);
            }
            let raw = a.wr.clone();
            let w = tarpc::serde_transport::new::<End, M, M, Json<M, M>>(Framed::new(a, rt_codec(scn.narrow)), Json::default());
            let wt = sim.spawn("writer", write_all::<M, _, _>(sim.clone(), w, scn.clone(), sh.clone(), Some(raw)));
            let (sim2, sh2, scn2) = (sim.clone(), sh.clone(), scn.clone());
            let rt = sim.spawn("reader", async move {
                let Some((f, delay)) = take_preface(&sim2, b, &scn2, &sh2).await else { return };
                let r = tarpc::serde_transport::new::<End, M, M, Json<M, M>>(f, Json::default());
                read_all::<M, _, _>(sim2, r, sh2, delay, scn2).await
            });
            (wt, rt)
        }
        Medium::SerdeBincode => {
            let (a, b) = pipe(scn.pipe.clone());
            if scn.duplex {
                let w = tarpc::serde_transport::new::<End, M, M, Bincode<M, M>>(Framed::new(a, LengthDelimitedCodec::new()), Bincode::default());
                let r = tarpc::serde_transport::new::<End, M, M, Bincode<M, M>>(Framed::new(b, LengthDelimitedCodec::new()), Bincode::default());
                let wt = sim.spawn("writer", duplex_end::<M, _, _>(sim.clone(), w, scn.clone(), sh.clone(), true));
                let rt = sim.spawn("reader", duplex_end::<M, _, _>(sim.clone(), r, scn.clone(), sh.clone(), false));
                return (wt, rt);
            }
            let raw = a.wr.clone();
            let w = tarpc::serde_transport::new::<End, M, M, Bincode<M, M>>(Framed::new(a, rt_codec(scn.narrow)), Bincode::default());
            let wt = sim.spawn("writer", write_all::<M, _, _>(sim.clone(), w, scn.clone(), sh.clone(), Some(raw)));
            let (sim2, sh2, scn2) = (sim.clone(), sh.clone(), scn.clone());
            let rt = sim.spawn("reader", async move {
                let Some((f, delay)) = take_preface(&sim2, b, &scn2, &sh2).await else { return };
                let r = tarpc::serde_transport::new::<End, M, M, Bincode<M, M>>(f, Bincode::default());
                read_all::<M, _, _>(sim2, r, sh2, delay, scn2).await
            });
            (wt, rt)
        }
        Medium::MemUnbounded => {
            let (w, r) = tarpc::transport::channel::unbounded::<M, M>();
            let wt = sim.spawn("writer", write_all::<M, _, _>(sim.clone(), w, scn.clone(), sh.clone(), None));
            let rt = sim.spawn("reader", read_all::<M, _, _>(sim.clone(), r, sh.clone(), scn.reader_delay_ms, scn.clone()));
            (wt, rt)
        }
        Medium::MemBounded(c) => {
            let (w, r) = tarpc::transport::channel::bounded::<M, M>(*c);
            let wt = sim.spawn("writer", write_all::<M, _, _>(sim.clone(), w, scn.clone(), sh.clone(), None));
            let rt = sim.spawn("reader", read_all::<M, _, _>(sim.clone(), r, sh.clone(), scn.reader_delay_ms, scn.clone()));
            (wt, rt)
        }
    }
}

fn run_roundtrip(scn: &RtScn, tape: Tape) -> RunOutput {
    let scn2 = scn.clone();
    let scn2b = scn.clone();
    let horizon = 60_000 + scn.msgs.len() as u64 * (scn.gap_ms + scn.pipe.latency_ms + 1) * 4;
    run_sim(
        tape,
        Knobs { max_polls: 300_000, ..Knobs::default() },
        horizon,
        true,
        |sim| {
            let sh = Rc::new(RefCell::new(RtShared { received: vec![], received_back: vec![], back_written: vec![], back_done: None, back_write_err: None, reader_done: None, enc_times: vec![], refused: vec![] }));
            let (wt, rt) = if scn2.responses {
                spawn_rt::<Response<String>>(sim, &scn2, &sh)
            } else {
                spawn_rt::<ClientMessage<String>>(sim, &scn2, &sh)
            };
            (sh, wt, rt)
        },
        |sim, st| {
            if scn2b.duplex {
                let sh = st.0.borrow();
                // both directions over (or failed); a deadlock ends the run by quiescence
                return if sh.reader_done.is_some() && sh.back_done.is_some() { IdleAct::Stop } else { IdleAct::Wait };
            }
            let back = scn2b.back_msgs > 0 && scn2b.end == EndKind::Close;
            let sh = st.0.borrow();
            let reader_over = sim.is_done(st.2) || (back && sh.reader_done.is_some());
            if reader_over && (!back || sh.back_done.is_some() || sh.back_write_err.is_some() || !matches!(sh.reader_done, Some(Ok(())))) {
                IdleAct::Stop
            } else {
                IdleAct::Wait
            }
        },
        |sim, st, end| {
            let sh = st.0.borrow();
            let mut v = Vec::new();
            let in_memory = matches!(scn.medium, Medium::MemUnbounded | Medium::MemBounded(_));
            let medium_tag = match scn.medium {
                Medium::SerdeJson => "json",
                Medium::SerdeBincode => "bincode",
                _ => "in-memory",
            };
            // expected list
            let mut expected: Vec<Norm> = Vec::new();
            {
                // rebuild norms from specs (bodies etc.); deadlines compared separately
                for (mi, m) in scn.msgs.iter().enumerate() {
                    if sh.refused.contains(&mi) {
                        continue;
                    }
                    let n = match m {
                        MsgSpec::Req { id, body: b, trace, span, sampled, .. } => Norm { kind: "req", id: *id, body: body(b), trace: trace_of(*trace), span: *span, sampled: *sampled, errkind: String::new(), deadline_us: 0 },
                        MsgSpec::Cancel { id, trace, span, sampled } => Norm { kind: "cancel", id: *id, body: String::new(), trace: trace_of(*trace), span: *span, sampled: *sampled, errkind: String::new(), deadline_us: 0 },
                        MsgSpec::RespOk { id, body: b } => Norm { kind: "ok", id: *id, body: body(b), trace: 0, span: 0, sampled: false, errkind: String::new(), deadline_us: 0 },
                        MsgSpec::RespErr { id, kind, detail } => {
                            let k = *kind as usize % KINDS.len();
                            let want = if in_memory || k < PORTABLE { KINDS[k] } else { io::ErrorKind::Other };
                            Norm { kind: "err", id: *id, body: body(detail), trace: 0, span: 0, sampled: false, errkind: format!("{want:?}"), deadline_us: 0 }
                        }
                    };
                    expected.push(n);
                }
            }
            let n_typed = expected.len();
            if scn.optional_fields {
                expected.push(Norm { kind: "cancel", id: 99, body: String::new(), trace: 0, span: 0, sampled: false, errkind: String::new(), deadline_us: 0 });
                expected.push(Norm { kind: "req", id: 98, body: "nodeadline".into(), trace: trace_of(77), span: 5, sampled: true, errkind: String::new(), deadline_us: 0 });
            }
            let got = &sh.received;
            for (i, (g, t_dec)) in got.iter().enumerate() {
                let Some(e) = expected.get(i) else {
                    v.push(viol("C15", "mismatch", &[medium_tag, "extra"], format!("reader produced an item #{i} the writer never wrote: {:?}", short(g))));
                    break;
                };
                let mut g2 = g.clone();
                g2.deadline_us = 0;
                if g2 != *e {
                    let optional = i >= n_typed;
                    if g2.kind == e.kind && g2.id == e.id && g2.body == e.body && g2.errkind != e.errkind {
                        v.push(viol("C15", "error-kind", &[medium_tag], format!("item #{i}: error kind written as {}, read as {}", kind_written(&scn.msgs, i), g2.errkind)));
                    } else if optional {
                        v.push(viol("C15", "optional-field", &[medium_tag], format!("item #{i}: expected {:?}, got {:?}", short(e), short(&g2))));
                    } else if expected.iter().any(|x| *x == g2) {
                        v.push(viol("C15", "reorder", &[medium_tag], format!("item #{i} arrived out of order: expected {:?}, got {:?}", short(e), short(&g2))));
                    } else {
                        v.push(viol("C15", "mismatch", &[medium_tag], format!("item #{i}: expected {:?}, got {:?}", short(e), short(&g2))));
                    }
                    break;
                }
                // deadlines
                if g.kind == "req" {
                    if i < n_typed {
                        // index among built messages == index among specs (all specs build in the right direction)
                        if let Some((d_us, t_enc_us)) = sh.enc_times.get(i) {
                            let transit = (*t_dec as i128) * 1000 - t_enc_us;
                            let expect = *d_us;
                            if in_memory {
                                if g.deadline_us != expect {
                                    v.push(viol("C07", if g.deadline_us < expect { "earlier" } else { "stretched" }, &[medium_tag], format!("item #{i}: deadline {} us became {} us over the in-memory transport", expect, g.deadline_us)));
                                }
                            } else {
                                // D <= D' <= D + transit, and an expired deadline arrives as now
                                let d_eff = (*d_us).max(*t_enc_us);
                                if g.deadline_us < d_eff {
                                    v.push(viol("C07", "earlier", &[medium_tag], format!("item #{i}: caller deadline {} us, decoded deadline {} us", d_eff, g.deadline_us)));
                                } else if g.deadline_us > d_eff + transit {
                                    v.push(viol("C07", "stretched", &[medium_tag], format!("item #{i}: caller deadline {} us, transit {} us, decoded deadline {} us", d_eff, transit, g.deadline_us)));
                                }
                                if *d_us <= *t_enc_us && g.deadline_us != (*t_dec as i128) * 1000 {
                                    v.push(viol("C07", "expired-not-now", &[medium_tag], format!("item #{i}: deadline already passed at encode; decoded {} us at decode time {} ms", g.deadline_us, t_dec)));
                                }
                            }
                        }
                    } else {
                        // the request that omitted its deadline: documented 10 s default
                        let want = (*t_dec as i128) * 1000 + 10_000_000;
                        if g.deadline_us != want {
                            v.push(viol("C07", "default", &[medium_tag], format!("request without a deadline decoded at {t_dec} ms got deadline {} us, expected {} us", g.deadline_us, want)));
                        }
                    }
                }
            }
            if v.is_empty() {
                match &sh.reader_done {
                    Some(Ok(())) => {
                        if got.len() < expected.len() {
                            v.push(viol("C15", "loss", &[medium_tag], format!("writer wrote {} items, reader saw end-of-stream after {}", expected.len(), got.len())));
                        }
                    }
                    Some(Err(e)) => v.push(viol("C15", "spurious-error", &[medium_tag], format!("after {} of {} items: {e}", got.len(), expected.len()))),
                    None => {
                        if !sim.overrun.get() && sim.panics.borrow().is_empty() {
                            let close_signals_eof = !(in_memory && scn.end == EndKind::Close);
                            if close_signals_eof || got.len() < expected.len() {
                                v.push(viol("C15", "no-eof", &[medium_tag], format!("reader still waiting after {} of {} items at the end of the run (writer ended by {:?})", got.len(), expected.len(), scn.end)));
                            }
                        }
                    }
                }
            }
            // duplex: the other direction, judged by plain equality
            if v.is_empty() && scn.duplex && !sim.overrun.get() && sim.panics.borrow().is_empty() {
                let want: Vec<Norm> = sh
                    .back_written
                    .iter()
                    .cloned()
                    .map(|mut n| {
                        if n.kind == "err" && !KINDS[..PORTABLE].iter().any(|k| format!("{k:?}") == n.errkind) {
                            n.errkind = format!("{:?}", io::ErrorKind::Other);
                        }
                        n
                    })
                    .collect();
                match &sh.back_done {
                    Some(Ok(())) => {
                        if sh.received_back != want || sh.back_written.len() != scn.msgs.len() {
                            v.push(viol("C15", if sh.received_back.len() < want.len() { "loss" } else { "mismatch" }, &[medium_tag, "duplex"], format!("both ends wrote {} messages to each other at once; one end read {} of them before end-of-stream", scn.msgs.len(), sh.received_back.len())));
                        }
                    }
                    Some(Err(e)) => v.push(viol("C15", "spurious-error", &[medium_tag, "duplex"], format!("duplex exchange failed after {} of {} items: {e}", sh.received_back.len(), scn.msgs.len()))),
                    None => v.push(viol("C15", "no-eof", &[medium_tag, "duplex"], format!("both ends wrote {} messages to each other at once over a {}-byte pipe; the exchange stalled with {} and {} of them delivered: neither direction may wait for the other", scn.msgs.len(), scn.pipe.cap, sh.received.len(), sh.received_back.len()))),
                }
            }
            // the way back, after this end's own write side was closed and the other end saw it
            if v.is_empty() && scn.back_msgs > 0 && scn.end == EndKind::Close && matches!(sh.reader_done, Some(Ok(()))) && !sim.overrun.get() && sim.panics.borrow().is_empty() {
                if let Some(e) = &sh.back_write_err {
                    v.push(viol("C15", "spurious-error", &[medium_tag, "after-eof"], format!("writing back after end-of-stream failed: {e}")));
                } else {
                    match &sh.back_done {
                        Some(Ok(())) => {
                            // over a serde medium only the portable error kinds survive
                            let want: Vec<Norm> = sh
                                .back_written
                                .iter()
                                .cloned()
                                .map(|mut n| {
                                    if !in_memory && n.kind == "err" && !KINDS[..PORTABLE].iter().any(|k| format!("{k:?}") == n.errkind) {
                                        n.errkind = format!("{:?}", io::ErrorKind::Other);
                                    }
                                    n
                                })
                                .collect();
                            if sh.received_back != want {
                                let what = if sh.received_back.len() < sh.back_written.len() { "loss" } else { "mismatch" };
                                v.push(viol("C15", what, &[medium_tag, "after-eof"], format!("{} items were fed and the end closed after it had read end-of-stream; the half-closed peer read {} of them before end-of-stream", sh.back_written.len(), sh.received_back.len())));
                            }
                        }
                        Some(Err(e)) => v.push(viol("C15", "spurious-error", &[medium_tag, "after-eof"], format!("half-closed end failed reading back after {} of {} items: {e}", sh.received_back.len(), sh.back_written.len()))),
                        None => v.push(viol("C15", "no-eof", &[medium_tag, "after-eof"], format!("half-closed end still waiting after {} of {} items written back and closed", sh.received_back.len(), sh.back_written.len()))),
                    }
                }
            }
            for (task, msg) in sim.panics.borrow().iter() {
                v.push(viol("C15", "panic", &[crate::panic_class(msg)], format!("task {} panicked: {}", sim.names.borrow()[*task], msg)));
            }
            if scn.pipe.max_read == 1 && !in_memory {
                sim.count("probe.byte_by_byte_reads");
            }
            drop(sh);
            crate::finish_output(sim, v, end, "bytes")
        },
    )
}

fn short(n: &Norm) -> String {
    let b = if n.body.len() > 24 { format!("{}..({} bytes)", &n.body.chars().take(12).collect::<String>(), n.body.len()) } else { n.body.clone() };
    format!("{} id={} body={:?} trace={:x} span={:x} sampled={} kind={}", n.kind, n.id, b, n.trace, n.span, n.sampled, n.errkind)
}

fn kind_written(msgs: &[MsgSpec], i: usize) -> String {
    match msgs.get(i) {
        Some(MsgSpec::RespErr { kind, .. }) => format!("{:?}", KINDS[*kind as usize % KINDS.len()]),
        _ => "?".into(),
    }
}

// ------------------------------------------------------------------------------------------
// Adversary

#[derive(Serialize)]
enum WireMsg {
    Request(WireRequest),
    Cancel { trace_context: trace::Context, request_id: u64 },
}
#[derive(Serialize)]
struct WireRequest {
    context: WireCtx,
    id: u64,
    message: u64,
}
#[derive(Serialize)]
struct WireCtx {
    deadline: WireDuration,
    trace_context: trace::Context,
}
/// Same shape as serde's Duration, without its range checks.
#[derive(Serialize)]
#[serde(rename = "Duration")]
struct WireDuration {
    secs: u64,
    nanos: u32,
}

fn encode<T: Serialize>(bincode_codec: bool, v: &T) -> Vec<u8> {
    if bincode_codec {
        use bincode::Options;
        bincode::DefaultOptions::new().serialize(v).unwrap()
    } else {
        serde_json::to_vec(v).unwrap()
    }
}

fn decode<T: DeserializeOwned>(bincode_codec: bool, b: &[u8]) -> Option<T> {
    if bincode_codec {
        use bincode::Options;
        bincode::DefaultOptions::new().deserialize(b).ok()
    } else {
        serde_json::from_slice(b).ok()
    }
}

fn adv_payload(bincode_codec: bool, m: &AdvMsg) -> Vec<u8> {
    match m {
        AdvMsg::Req { id, secs, nanos, body } => encode(
            bincode_codec,
            &WireMsg::Request(WireRequest {
                context: WireCtx { deadline: WireDuration { secs: *secs, nanos: *nanos }, trace_context: tctx(5, 6, true) },
                id: *id,
                message: *body,
            }),
        ),
        AdvMsg::Cancel { id } => encode(bincode_codec, &WireMsg::Cancel { trace_context: tctx(5, 6, false), request_id: *id }),
        AdvMsg::Resp { id, body } => encode(bincode_codec, &Response { request_id: *id, message: Ok::<u64, ServerError>(*body) }),
    }
}

fn chunk_bytes(bincode_codec: bool, c: &Chunk) -> Vec<u8> {
    match c {
        Chunk::Valid(m) => frame(&adv_payload(bincode_codec, m)),
        Chunk::Flipped { base, flips } => {
            let mut p = adv_payload(bincode_codec, base);
            if !p.is_empty() {
                for (pos, bit) in flips {
                    let i = *pos as usize % p.len();
                    p[i] ^= 1 << (bit % 8);
                }
            }
            frame(&p)
        }
        Chunk::Spliced { base, edits } => {
            let mut p = adv_payload(bincode_codec, base);
            for (pos, kind, arg) in edits {
                if p.is_empty() {
                    break;
                }
                let i = *pos as usize % p.len();
                let n = (1 + (*arg as usize % 8)).min(p.len() - i);
                match kind % 3 {
                    0 => {
                        let run = p[i..i + n].to_vec();
                        p.splice(i..i, run);
                    }
                    1 => {
                        p.drain(i..i + n);
                    }
                    _ => {
                        const MEANINGFUL: &[u8] = b"0919-+eE.\"[]{},:xfn \\\x00\xff\x80\x7f";
                        p[i] = MEANINGFUL[*arg as usize % MEANINGFUL.len()];
                    }
                }
            }
            frame(&p)
        }
        Chunk::Garbage { seed, len } => {
            let mut r = Rng::new(*seed);
            let p: Vec<u8> = (0..*len).map(|_| r.next() as u8).collect();
            frame(&p)
        }
        Chunk::Flood { base, n } => {
            let f = frame(&adv_payload(bincode_codec, base));
            let mut out = Vec::with_capacity(f.len() * *n as usize);
            for _ in 0..*n {
                out.extend_from_slice(&f);
            }
            out
        }
    }
}

pub const PROBE_ID: u64 = 424_243;

/// The frame is cut exactly after its 4-byte length prefix.
fn header_only(t: &Tail) -> bool {
    matches!(t, Tail::TruncatedEof { keep: 4, .. })
}

struct AdvShared {
    probe_answered: bool,
    call_outcome: Option<String>,
    dispatch_res: Option<String>,
}

/// Pulls complete length-delimited frames out of a pipe direction (the adversary's read side).
async fn next_frame(dir: &pipe::DirRef, buf: &mut Vec<u8>) -> Option<Vec<u8>> {
    loop {
        if buf.len() >= 4 {
            let len = u32::from_be_bytes([buf[0], buf[1], buf[2], buf[3]]) as usize;
            if buf.len() >= 4 + len {
                let f = buf[4..4 + len].to_vec();
                buf.drain(..4 + len);
                return Some(f);
            }
        }
        // read whatever is available
        let mut tmp = [0u8; 4096];
        let n = {
            let mut rb = tokio::io::ReadBuf::new(&mut tmp);
            let r = futures::future::poll_fn(|cx| pipe::plain_read(dir, cx, &mut rb)).await;
            if r.is_err() {
                return None;
            }
            rb.filled().len()
        };
        if n == 0 {
            return None;
        }
        buf.extend_from_slice(&tmp[..n]);
    }
}

fn run_adversary(scn: &AdvScn, tape: Tape) -> RunOutput {
    let scn2 = scn.clone();
    let _sub = crate::subscribers::install(scn.subscriber);
    run_sim(
        tape,
        Knobs { max_polls: 300_000, ..Knobs::default() },
        120_000,
        true,
        |sim| {
            let scn = scn2;
            let sh = Rc::new(RefCell::new(AdvShared { probe_answered: false, call_outcome: None, dispatch_res: None }));
            // `victim` is the end given to tarpc; the adversary works on the raw directions of `adv`.
            let (adv, victim) = pipe(scn.pipe.clone());
            let to_victim = adv.wr.clone();
            let from_victim = adv.rd.clone();
            let mut essential = Vec::new();
            let shared = crate::profiles::server::ServerShared::new();
            if !scn.attack_client {
                use crate::profiles::server::{server_task, HandlerPlan, RunMode};
                let mon: Rc<dyn Fn(bool, bool)> = Rc::new(|_, _| {});
                let plans: Rc<dyn Fn(u64) -> HandlerPlan> = Rc::new(|_| HandlerPlan { steps: vec![], err: false, run: RunMode::Execute });
                let framed = Framed::new(victim, LengthDelimitedCodec::new());
                if scn.bincode {
                    let t = tarpc::serde_transport::new::<End, ClientMessage<u64>, Response<u64>, Bincode<ClientMessage<u64>, Response<u64>>>(framed, Bincode::default());
                    let ch = tarpc::server::BaseChannel::with_defaults(t);
                    essential.push(sim.spawn("server", server_task(sim.clone(), 0, ch, mon, plans, shared.clone())));
                } else {
                    let t = tarpc::serde_transport::new::<End, ClientMessage<u64>, Response<u64>, Json<ClientMessage<u64>, Response<u64>>>(framed, Json::default());
                    let ch = tarpc::server::BaseChannel::with_defaults(t);
                    essential.push(sim.spawn("server", server_task(sim.clone(), 0, ch, mon, plans, shared.clone())));
                }
                // adversary
                let (sim_a, sh_a) = (sim.clone(), sh.clone());
                essential.push(sim.spawn("adversary", async move {
                    for c in &scn.chunks {
                        pipe::inject(&to_victim, &chunk_bytes(scn.bincode, c));
                        crate::profiles::server::yield_once().await;
                        sim_a.count("fault.adversarial_chunk");
                    }
                    match &scn.tail {
                        Tail::Probe => {
                            let probe = AdvMsg::Req { id: PROBE_ID, secs: 5, nanos: 0, body: 1 };
                            pipe::inject(&to_victim, &frame(&adv_payload(scn.bincode, &probe)));
                            let mut buf = Vec::new();
                            // read until the probe's response shows up or the victim closes
                            loop {
                                let fut = next_frame(&from_victim, &mut buf);
                                let Some(f) = fut.await else { break };
                                if let Some(r) = decode::<Response<u64>>(scn.bincode, &f) {
                                    if r.request_id == PROBE_ID {
                                        sh_a.borrow_mut().probe_answered = true;
                                        break;
                                    }
                                }
                            }
                            pipe::close_write(&to_victim);
                        }
                        Tail::TruncatedEof { base, keep } => {
                            let f = frame(&adv_payload(scn.bincode, base));
                            let k = (*keep as usize).min(f.len().saturating_sub(1)).max(1);
                            pipe::inject(&to_victim, &f[..k]);
                            pipe::close_write(&to_victim);
                        }
                        Tail::OversizedPrefix(n) => {
                            let mut f = n.to_be_bytes().to_vec();
                            f.extend_from_slice(b"xxxx");
                            pipe::inject(&to_victim, &f);
                            crate::profiles::server::yield_once().await;
                            tokio::time::sleep(Duration::from_millis(5)).await;
                            pipe::close_write(&to_victim);
                        }
                        Tail::RawEof { seed, len } => {
                            let mut r = Rng::new(*seed);
                            let p: Vec<u8> = (0..*len).map(|_| r.next() as u8).collect();
                            pipe::inject(&to_victim, &p);
                            pipe::close_write(&to_victim);
                        }
                    }
                }));
            } else {
                use tarpc::client;
                let framed = Framed::new(victim, LengthDelimitedCodec::new());
                let (sim_d, sh_d) = (sim.clone(), sh.clone());
                let chan: client::Channel<u64, u64> = if scn.bincode {
                    let t = tarpc::serde_transport::new::<End, Response<u64>, ClientMessage<u64>, Bincode<Response<u64>, ClientMessage<u64>>>(framed, Bincode::default());
                    let client::NewClient { client, dispatch } = client::new(client::Config::default(), t);
                    essential.push(sim.spawn("dispatch", async move {
                        let r = dispatch.await;
                        sh_d.borrow_mut().dispatch_res = Some(match &r { Ok(()) => "Ok".into(), Err(e) => format!("Err({})", crate::profiles::client::chan_err_name(e)) });
                        sim_d.log(EvKind::DispatchDone { node: 0, res: if r.is_ok() { "Ok".into() } else { "Err".into() } });
                    }));
                    client
                } else {
                    let t = tarpc::serde_transport::new::<End, Response<u64>, ClientMessage<u64>, Json<Response<u64>, ClientMessage<u64>>>(framed, Json::default());
                    let client::NewClient { client, dispatch } = client::new(client::Config::default(), t);
                    essential.push(sim.spawn("dispatch", async move {
                        let r = dispatch.await;
                        sh_d.borrow_mut().dispatch_res = Some(match &r { Ok(()) => "Ok".into(), Err(e) => format!("Err({})", crate::profiles::client::chan_err_name(e)) });
                        sim_d.log(EvKind::DispatchDone { node: 0, res: if r.is_ok() { "Ok".into() } else { "Err".into() } });
                    }));
                    client
                };
                let (sim_a, sh_a) = (sim.clone(), sh.clone());
                let is_probe = scn.tail == Tail::Probe;
                let (sim_c, sh_c) = (sim.clone(), sh.clone());
                // the probe call
                essential.push(sim.spawn("caller", async move {
                    // let the adversary's chunks go first
                    tokio::time::sleep(Duration::from_millis(2)).await;
                    let mut ctx = context::current();
                    ctx.deadline = sim_c.instant_at(sim_c.now_ms() + 5_000);
                    let r = chan.call(ctx, 7).await;
                    sh_c.borrow_mut().call_outcome = Some(match r {
                        Ok(v) => format!("Ok({v})"),
                        Err(e) => format!("Err({e})"),
                    });
                    drop(chan);
                }));
                essential.push(sim.spawn("adversary", async move {
                    for c in &scn.chunks {
                        pipe::inject(&to_victim, &chunk_bytes(scn.bincode, c));
                        crate::profiles::server::yield_once().await;
                        sim_a.count("fault.adversarial_chunk");
                    }
                    if is_probe {
                        // answer the first request the client sends
                        let mut buf = Vec::new();
                        while let Some(f) = next_frame(&from_victim, &mut buf).await {
                            #[derive(Deserialize)]
                            enum In {
                                Request(InReq),
                                Cancel {
                                    #[allow(dead_code)]
                                    request_id: u64,
                                },
                            }
                            #[derive(Deserialize)]
                            struct InReq {
                                #[allow(dead_code)]
                                context: serde::de::IgnoredAny,
                                id: u64,
                                #[allow(dead_code)]
                                message: u64,
                            }
                            let id = if scn.bincode {
                                decode::<ClientMessage<u64>>(true, &f).and_then(|m| match m {
                                    ClientMessage::Request(r) => Some(r.id),
                                    _ => None,
                                })
                            } else {
                                decode::<In>(false, &f).and_then(|m| match m {
                                    In::Request(r) => Some(r.id),
                                    In::Cancel { .. } => None,
                                })
                            };
                            if let Some(id) = id {
                                pipe::inject(&to_victim, &frame(&adv_payload(scn.bincode, &AdvMsg::Resp { id, body: 4242 })));
                                sh_a.borrow_mut().probe_answered = true;
                                break;
                            }
                        }
                        tokio::time::sleep(Duration::from_millis(1)).await;
                        pipe::close_write(&to_victim);
                    } else {
                        match &scn.tail {
                            Tail::TruncatedEof { base, keep } => {
                                let f = frame(&adv_payload(scn.bincode, base));
                                let k = (*keep as usize).min(f.len().saturating_sub(1)).max(1);
                                pipe::inject(&to_victim, &f[..k]);
                            }
                            Tail::OversizedPrefix(n) => {
                                let mut f = n.to_be_bytes().to_vec();
                                f.extend_from_slice(b"xxxx");
                                pipe::inject(&to_victim, &f);
                                tokio::time::sleep(Duration::from_millis(5)).await;
                            }
                            Tail::RawEof { seed, len } => {
                                let mut r = Rng::new(*seed);
                                let p: Vec<u8> = (0..*len).map(|_| r.next() as u8).collect();
                                pipe::inject(&to_victim, &p);
                            }
                            Tail::Probe => {}
                        }
                        pipe::close_write(&to_victim);
                    }
                }));
            }
            (sh, essential, shared, adv)
        },
        |sim, st| {
            let handlers_done = st.2.handler_tasks.borrow().iter().all(|t| sim.is_done(*t));
            if st.1.iter().all(|t| sim.is_done(*t)) && handlers_done {
                IdleAct::Stop
            } else {
                IdleAct::Wait
            }
        },
        |sim, st, end| {
            let mut v = Vec::new();
            let sh = st.0.borrow();
            let log = sim.log.borrow();
            let codec = if scn.bincode { "bincode" } else { "json" };
            let side = if scn.attack_client { "client" } else { "server" };
            let stream_err = log.iter().any(|e| matches!(e.kind, EvKind::StreamErr { .. }));
            let stream_end = log.iter().any(|e| matches!(e.kind, EvKind::StreamEnd { .. }));
            let panicked = !sim.panics.borrow().is_empty();
            if !panicked && !sim.overrun.get() {
                if !scn.attack_client {
                    match &scn.tail {
                        Tail::Probe => {
                            if !sh.probe_answered && !stream_err {
                                v.push(viol("C16", "service-lost", &[codec, side], format!("after the odd traffic the probe request was neither answered nor was an error reported (stream ended cleanly: {stream_end})")));
                            }
                        }
                        Tail::TruncatedEof { .. } | Tail::OversizedPrefix(_) => {
                            if !stream_err {
                                let hdr = if header_only(&scn.tail) { "cut-after-length-prefix" } else { "cut" };
                                v.push(viol("C16", "malformed-accepted", &[side, hdr], format!("malformed tail {:?} did not end the connection with an error (clean end: {stream_end})", scn.tail)));
                            }
                        }
                        Tail::RawEof { .. } => {
                            if !stream_err && !stream_end {
                                v.push(viol("C16", "service-lost", &[codec, side, "hang"], "connection neither ended nor reported an error after EOF".into()));
                            }
                        }
                    }
                } else {
                    let d = sh.dispatch_res.clone();
                    let c = sh.call_outcome.clone();
                    match &scn.tail {
                        Tail::Probe => {
                            let ok = matches!(&c, Some(s) if s.starts_with("Ok(")) || matches!(&d, Some(s) if s.starts_with("Err"));
                            if !ok {
                                v.push(viol("C16", "service-lost", &[codec, side], format!("probe call outcome {c:?}, dispatch {d:?}")));
                            }
                        }
                        Tail::TruncatedEof { .. } | Tail::OversizedPrefix(_) => {
                            if !matches!(&d, Some(s) if s.starts_with("Err")) {
                                let hdr = if header_only(&scn.tail) { "cut-after-length-prefix" } else { "cut" };
                                v.push(viol("C16", "malformed-accepted", &[side, hdr], format!("malformed tail {:?}: dispatch ended {d:?}", scn.tail)));
                            }
                        }
                        Tail::RawEof { .. } => {
                            if d.is_none() {
                                v.push(viol("C16", "service-lost", &[codec, side, "hang"], "dispatch neither ended nor reported an error after EOF".into()));
                            }
                        }
                    }
                    if c.is_none() {
                        v.push(viol("C16", "service-lost", &[codec, side, "call-hang"], format!("the probe call never resolved (dispatch {d:?})")));
                    }
                }
            }
            // A well-formed request whose remaining duration is beyond anything a run can reach
            // (including durations no Instant can hold) must not come back as a deadline that an
            // execution could actually reach: "never earlier than the caller's" as far as anyone
            // can tell. 780 days is the longest simulated run and within the timer queue's range.
            if !scn.attack_client && !panicked {
                const FAR_US: i128 = 780 * 86_400 * 1_000_000;
                for e in log.iter() {
                    if let EvKind::HandlerStart { id, inc, deadline_us, .. } = &e.kind {
                        // several chunks may use one id; the body (echoed as `inc`) tells them apart
                        let matching: Vec<i128> = scn
                            .chunks
                            .iter()
                            .filter_map(|c| match c {
                                Chunk::Valid(AdvMsg::Req { id: i, secs, nanos, body }) | Chunk::Flood { base: AdvMsg::Req { id: i, secs, nanos, body }, .. } if i == id && *body as u32 == *inc => Some((*secs as i128) * 1_000_000 + (*nanos as i128) / 1000),
                                _ => None,
                            })
                            .collect();
                        let wire = if matching.is_empty() { None } else { matching.iter().min().copied() };
                        // (a flipped frame may decode into anything: only ids that no flipped or
                        // garbage chunk could have produced are judged)
                        let only_valid = scn.chunks.iter().all(|c| matches!(c, Chunk::Valid(_) | Chunk::Flood { .. }));
                        if let (Some(w), true) = (wire, only_valid) {
                            let remaining = (*deadline_us as i128) - (e.t as i128) * 1000;
                            if w >= FAR_US && remaining < FAR_US {
                                let what = format!("request {id} was sent with {} s remaining; the handler observes a deadline only {} s away", w / 1_000_000, remaining / 1_000_000);
                                v.push(viol("C07", "earlier", &[codec, "far"], what.clone()));
                                v.push(viol("C06", "early", &[codec, "decoded-deadline"], format!("{what}: the channel arms its timer from that value and will abort the handler then")));
                            }
                        }
                    }
                }
            }
            for (task, msg) in sim.panics.borrow().iter() {
                v.push(viol("C16", "panic", &[crate::panic_class(msg), side], format!("task {} panicked: {}", sim.names.borrow()[*task], msg)));
            }
            drop(log);
            drop(sh);
                        drop(st);
            crate::finish_output(sim, v, end, "bytes")
        },
    )
}

pub fn run(scn: &BytesScn, tape: Tape) -> RunOutput {
    match scn {
        BytesScn::Roundtrip(r) => run_roundtrip(r, tape),
        BytesScn::Adversary(a) => run_adversary(a, tape),
    }
}
