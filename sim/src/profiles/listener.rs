//! P-listener: the real `MaxChannelsPerKey` / `TrackedChannel` over real `BaseChannel`s, fed by a
//! scripted listener stream; a driver opens and closes connections.

use crate::exec::{run_sim, IdleAct, Knobs, Sim};
use crate::hist::{Ev, EvKind};
use crate::tape::{Rng, Tape};
use crate::transport::SimErr;
use crate::{RunOutput, Violation};
use futures::{Sink, Stream, StreamExt};
use serde::{Deserialize, Serialize};
use std::cell::RefCell;
use std::collections::{HashMap, VecDeque};
use std::pin::Pin;
use std::rc::Rc;
use std::task::{Context, Poll, Waker};
use tarpc::server::incoming::Incoming;
use tarpc::server::{BaseChannel, Channel};
use tarpc::{ClientMessage, Response};

#[derive(Clone, Debug, Serialize, Deserialize, PartialEq)]
pub enum LOp {
    Arrive(u32),
    /// Close the i-th (modulo) currently alive admitted channel.
    Close(u32),
    /// Close an alive channel with this key, if any.
    CloseKey(u32),
    /// A connection arrives, and an alive channel with the same key (if any) is closed from inside
    /// the listener's own `poll_next`, just before it yields the new connection.
    ArriveClosing(u32),
}

#[derive(Clone, Debug, Serialize, Deserialize)]
pub struct ListenerScn {
    pub n: u32,
    /// Batches are executed atomically (one driver step); the driver yields between batches.
    pub batches: Vec<Vec<LOp>>,
}

impl ListenerScn {
    pub fn valid(&self) -> bool {
        self.n >= 1
    }
}

/// A crowd: about a thousand keys connect (the key map grows), most of them leave (it becomes
/// sparse), and the few that stayed are then tried again, together with some that left.
fn gen_crowd(rng: &mut Rng) -> ListenerScn {
    let n = *rng.pick(&[1u32, 1, 2]);
    let crowd = rng.range(950, 1200) as u32;
    let stay = rng.range(3, 12) as u32;
    let mut batches = Vec::new();
    batches.push((0..crowd).map(LOp::Arrive).collect());
    if n == 2 && rng.chance(500) {
        // the stayers take both of their slots
        batches.push((0..stay).map(LOp::Arrive).collect());
    }
    // leave in one go or in a few waves
    let waves = rng.range(1, 4) as u32;
    let leavers: Vec<u32> = (stay..crowd).collect();
    for w in leavers.chunks(leavers.len() / waves as usize + 1) {
        batches.push(w.iter().map(|k| LOp::CloseKey(*k)).collect());
    }
    batches.push(vec![]);
    let mut again: Vec<LOp> = Vec::new();
    for k in 0..stay {
        again.push(LOp::Arrive(k));
        if n == 2 {
            again.push(LOp::Arrive(k));
        }
    }
    for _ in 0..rng.range(1, 4) {
        again.push(LOp::Arrive(rng.range(stay as u64, crowd as u64 - 1) as u32));
    }
    batches.push(again);
    ListenerScn { n, batches }
}

pub fn gen(rng: &mut Rng) -> ListenerScn {
    if rng.chance(4) {
        return gen_crowd(rng);
    }
    let keys = rng.range(1, 4) as u32;
    // mostly small limits (where shedding happens), sometimes the largest ones ("no limit")
    let n = *rng.pick(&[1u32, 1, 1, 2, 2, 2, 3, 3, u32::MAX, u32::MAX - 1]);
    let nb = rng.range(1, 10);
    let mut batches = Vec::new();
    for _ in 0..nb {
        let mut b = Vec::new();
        let style = rng.below(10);
        if style < 4 {
            // a close and a same-key arrival pending at one poll
            let k = rng.below(keys as u64) as u32;
            if rng.chance(500) {
                b.push(LOp::CloseKey(k));
                b.push(LOp::Arrive(k));
            } else {
                b.push(LOp::Arrive(k));
                b.push(LOp::CloseKey(k));
            }
            if rng.chance(300) {
                b.push(LOp::Arrive(k));
            }
        } else {
            for _ in 0..rng.range(1, 3) {
                b.push(match rng.below(3) {
                    0 => LOp::Close(rng.below(4) as u32),
                    1 => LOp::CloseKey(rng.below(keys as u64) as u32),
                    2 if rng.chance(300) => LOp::ArriveClosing(rng.below(keys as u64) as u32),
                    _ => LOp::Arrive(rng.below(keys as u64) as u32),
                });
            }
        }
        batches.push(b);
    }
    ListenerScn { n, batches }
}

/// The key the limiter sees. Keys 2k and 2k+1 are different keys with the *same hash* (a `Hash`
/// impl may legally cover less than `Eq` compares): the limit is per key, not per hash.
#[derive(Clone, Copy, PartialEq, Eq, Debug)]
pub struct LKey(pub u32);

impl std::fmt::Display for LKey {
    fn fmt(&self, f: &mut std::fmt::Formatter<'_>) -> std::fmt::Result {
        write!(f, "{}", self.0)
    }
}

impl std::hash::Hash for LKey {
    fn hash<H: std::hash::Hasher>(&self, state: &mut H) {
        (self.0 >> 1).hash(state)
    }
}

/// A do-nothing transport that knows its key and reports its own drop.
pub struct Keyed {
    pub key: u32,
    pub serial: u32,
    sim: Rc<Sim>,
}

impl Drop for Keyed {
    fn drop(&mut self) {
        self.sim.log(EvKind::Note { what: "conn_dropped", a: self.serial as i64, b: self.key as i64 });
    }
}

impl Stream for Keyed {
    type Item = Result<ClientMessage<u64>, SimErr>;
    fn poll_next(self: Pin<&mut Self>, _cx: &mut Context<'_>) -> Poll<Option<Self::Item>> {
        Poll::Pending
    }
}
impl Sink<Response<u64>> for Keyed {
    type Error = SimErr;
    fn poll_ready(self: Pin<&mut Self>, _: &mut Context<'_>) -> Poll<Result<(), SimErr>> {
        Poll::Ready(Ok(()))
    }
    fn start_send(self: Pin<&mut Self>, _: Response<u64>) -> Result<(), SimErr> {
        Ok(())
    }
    fn poll_flush(self: Pin<&mut Self>, _: &mut Context<'_>) -> Poll<Result<(), SimErr>> {
        Poll::Ready(Ok(()))
    }
    fn poll_close(self: Pin<&mut Self>, _: &mut Context<'_>) -> Poll<Result<(), SimErr>> {
        Poll::Ready(Ok(()))
    }
}

type Chan = BaseChannel<u64, u64, Keyed>;

type Tracked = tarpc::server::limits::channels_per_key::TrackedChannel<Chan, LKey>;
type Alive = Rc<RefCell<Vec<(u32, u32, Tracked)>>>;

#[derive(Default)]
struct ListenerShared {
    queue: VecDeque<(Chan, bool)>,
    waker: Option<Waker>,
    closed: bool,
}

struct ScriptedListener {
    sh: Rc<RefCell<ListenerShared>>,
    sim: Rc<Sim>,
    alive: Alive,
}

impl Stream for ScriptedListener {
    type Item = Chan;
    fn poll_next(self: Pin<&mut Self>, cx: &mut Context<'_>) -> Poll<Option<Chan>> {
        let mut sh = self.sh.borrow_mut();
        if let Some((c, close_first)) = sh.queue.pop_front() {
            let (serial, key) = (c.get_ref().serial, c.get_ref().key);
            drop(sh);
            if close_first {
                let victim = {
                    let mut a = self.alive.borrow_mut();
                    a.iter().position(|x| x.1 == key).map(|ix| a.remove(ix))
                };
                if let Some((s, k, ch)) = victim {
                    self.sim.log(EvKind::Note { what: "close", a: s as i64, b: k as i64 });
                    self.sim.count("fault.channel_closed_inside_listener_poll");
                    drop(ch);
                }
            }
            self.sim.log(EvKind::Note { what: "take", a: serial as i64, b: key as i64 });
            return Poll::Ready(Some(c));
        }
        if sh.closed {
            return Poll::Ready(None);
        }
        sh.waker = Some(cx.waker().clone());
        Poll::Pending
    }
}

pub fn run(scn: &ListenerScn, tape: Tape) -> RunOutput {
    let scn2 = scn.clone();
    run_sim(
        tape,
        Knobs::default(),
        10_000,
        true,
        |sim| {
            let scn = scn2;
            let sh = Rc::new(RefCell::new(ListenerShared::default()));
            // admitted & alive channels: (serial, key, channel)
            let alive: Alive = Rc::new(RefCell::new(Vec::new()));
            let listener = ScriptedListener { sh: sh.clone(), sim: sim.clone(), alive: alive.clone() };
            let limited = listener.max_channels_per_key(scn.n, |c: &Chan| LKey(c.get_ref().key));
            let (sim_l, alive_l) = (sim.clone(), alive.clone());
            let lt = sim.spawn("listener", async move {
                let mut limited = Box::pin(limited);
                while let Some(ch) = limited.next().await {
                    let (serial, key) = (ch.get_ref().get_ref().serial, ch.get_ref().get_ref().key);
                    // in_flight_requests() goes through TrackedChannel -> BaseChannel
                    let _ = ch.in_flight_requests();
                    sim_l.log(EvKind::Note { what: "admit", a: serial as i64, b: key as i64 });
                    alive_l.borrow_mut().push((serial, key, ch));
                }
                sim_l.log(EvKind::Note { what: "listener_end", a: 0, b: 0 });
            });
            let (sim_d, sh_d, alive_d) = (sim.clone(), sh.clone(), alive.clone());
            let dt = sim.spawn("driver", async move {
                let mut serial = 0u32;
                for b in scn.batches.iter() {
                    for op in b {
                        match op {
                            LOp::Arrive(k) | LOp::ArriveClosing(k) => {
                                serial += 1;
                                sim_d.log(EvKind::Note { what: "arrive", a: serial as i64, b: *k as i64 });
                                let t = Keyed { key: *k, serial, sim: sim_d.clone() };
                                let w = {
                                    let mut s = sh_d.borrow_mut();
                                    s.queue.push_back((BaseChannel::with_defaults(t), matches!(op, LOp::ArriveClosing(_))));
                                    s.waker.take()
                                };
                                if let Some(w) = w {
                                    w.wake();
                                }
                            }
                            LOp::Close(i) => {
                                let victim = {
                                    let mut a = alive_d.borrow_mut();
                                    if a.is_empty() {
                                        None
                                    } else {
                                        let ix = (*i as usize) % a.len();
                                        Some(a.remove(ix))
                                    }
                                };
                                if let Some((s, k, ch)) = victim {
                                    sim_d.log(EvKind::Note { what: "close", a: s as i64, b: k as i64 });
                                    sim_d.count("fault.channel_closed");
                                    drop(ch);
                                }
                            }
                            LOp::CloseKey(k) => {
                                let victim = {
                                    let mut a = alive_d.borrow_mut();
                                    a.iter().position(|x| x.1 == *k).map(|ix| a.remove(ix))
                                };
                                if let Some((s, k, ch)) = victim {
                                    sim_d.log(EvKind::Note { what: "close", a: s as i64, b: k as i64 });
                                    sim_d.count("fault.channel_closed");
                                    drop(ch);
                                }
                            }
                        }
                    }
                    crate::profiles::server::yield_once().await;
                }
                // let the listener drain, then end the listener stream
                tokio::time::sleep(std::time::Duration::from_millis(1)).await;
                let w = {
                    let mut s = sh_d.borrow_mut();
                    s.closed = true;
                    s.waker.take()
                };
                if let Some(w) = w {
                    w.wake();
                }
            });
            (lt, dt, alive)
        },
        |sim, st| {
            if sim.is_done(st.0) && sim.is_done(st.1) {
                IdleAct::Stop
            } else {
                IdleAct::Wait
            }
        },
        |sim, st, end| {
            let mut v = {
                let log = sim.log.borrow();
                check(scn, &log, sim)
            };
            if !sim.is_done(st.0) && !sim.overrun.get() && sim.panics.borrow().is_empty() {
                v.push(viol("listener-hang", &[], "the limited stream did not end after the listener ended".into()));
            }
            drop(st);
            crate::finish_output(sim, v, end, "listener")
        },
    )
}

fn viol(rule: &str, tags: &[&str], detail: String) -> Violation {
    Violation { prop: "C13", rule: rule.to_string(), tags: tags.iter().map(|s| s.to_string()).collect(), detail }
}

pub fn check(scn: &ListenerScn, log: &[Ev], sim: &Sim) -> Vec<Violation> {
    let mut v = Vec::new();
    let n = scn.n as i64;
    let mut live: HashMap<i64, i64> = HashMap::new();
    // serial -> state: 1 taken (undecided), 2 admitted, 3 closed by driver
    let mut state: HashMap<i64, u8> = HashMap::new();
    let mut live_at_take: HashMap<i64, i64> = HashMap::new();
    let mut max_live_since_take: HashMap<i64, i64> = HashMap::new();
    let mut same_poll = 0;
    let mut pending_close_keys: Vec<i64> = Vec::new();
    for e in log {
        match &e.kind {
            EvKind::Note { what: "teardown", .. } => break,
            EvKind::Note { what: "arrive", b, .. } => {
                if pending_close_keys.contains(b) {
                    same_poll += 1;
                }
            }
            EvKind::Note { what: "take", a, b } => {
                state.insert(*a, 1);
                let l = live.get(b).copied().unwrap_or(0);
                live_at_take.insert(*a, l);
                max_live_since_take.insert(*a, l);
                pending_close_keys.clear();
            }
            EvKind::Note { what: "admit", a, b } => {
                let l = live.entry(*b).or_insert(0);
                if *l >= n {
                    v.push(viol("over-limit", &[], format!("connection #{a} with key {b} admitted while {l} >= n={n} channels with that key are alive (seq {})", e.seq)));
                }
                *l += 1;
                state.insert(*a, 2);
            }
            EvKind::Note { what: "close", a, b } => {
                *live.entry(*b).or_insert(0) -= 1;
                state.insert(*a, 3);
                pending_close_keys.push(*b);
            }
            EvKind::Note { what: "conn_dropped", a, b } => {
                match state.get(a).copied() {
                    Some(1) => {
                        // dropped by the limiter without being yielded: shed
                        let l = max_live_since_take.get(a).copied().unwrap_or(0);
                        if l < n {
                            v.push(viol("over-shed", &[], format!("connection #{a} with key {b} was shed although only {l} < n={n} channels with that key were alive (seq {})", e.seq)));
                        }
                        sim.count("probe.shed");
                        state.insert(*a, 4);
                    }
                    Some(2) => {
                        // an admitted channel may only die when the driver closes it
                        v.push(viol("yielded-channel-dropped", &[], format!("admitted connection #{a} was dropped by the limiter (seq {})", e.seq)));
                    }
                    _ => {}
                }
            }
            _ => {}
        }
    }
    if same_poll > 0 {
        sim.count("probe.close_and_same_key_arrival_pending_together");
    }
    for (task, msg) in sim.panics.borrow().iter() {
        v.push(viol("panic", &[crate::panic_class(msg)], format!("task {} panicked: {}", sim.names.borrow()[*task], msg)));
    }
    v
}
