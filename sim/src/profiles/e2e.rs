//! P-e2e: real clients and real servers connected by real transports (in-memory unbounded /
//! bounded, serde JSON / bincode over SimPipe), each wrapped in a `Tap`; chains root -> S1 -> S2
//! -> S3 where every hop's handler calls the next hop through a real client with its context.

use crate::exec::{run_sim, IdleAct, Knobs, Sim};
use crate::hist::{Ev, EvKind, Item, Op, Outcome, Res};
use crate::pipe::{pipe, End, PipeCfg};
use crate::profiles::client::{chan_err_name, trace128};
use crate::profiles::server::{server_task, server_task_limited, HStep, HandlerPlan, RunMode, ServerShared};
use crate::tape::{Rng, Tape};
use crate::transport::{Tap, TapState};
use crate::{RunOutput, Violation};
use futures::future::poll_fn;
use futures::{Future, Sink, Stream};
use serde::{Deserialize, Serialize};
use std::cell::RefCell;
use std::collections::HashMap;
use std::pin::Pin;
use std::rc::Rc;
use std::task::{Context, Poll, Waker};
use std::time::Duration;
use tarpc::client::{self, RpcError};
use tarpc::server::{BaseChannel, Channel};
use tarpc::{context, trace, ClientMessage, Response};
use tokio_serde::formats::{Bincode, Json};
use tokio_util::codec::{Framed, LengthDelimitedCodec};

#[derive(Clone, Debug, Serialize, Deserialize, PartialEq)]
pub enum LinkKind {
    MemUnbounded,
    MemBounded(usize),
    Json,
    Bincode,
}

#[derive(Clone, Debug, Serialize, Deserialize)]
pub struct HopScn {
    pub link: LinkKind,
    pub pipe: PipeCfg,
    pub limit: Option<usize>,
    pub resp_buf: usize,
    pub max_in_flight: usize,
    pub pending_buf: usize,
    /// stalls of the server-side tap's write direction: (at_ms, dur_ms)
    pub stalls: Vec<(u64, u64)>,
}

#[derive(Clone, Debug, Serialize, Deserialize, PartialEq)]
pub enum Ab2 {
    AtMs(u64),
    /// when the handler of this call starts at node k (1-based)
    WhenHandlerStarts(u8),
}

#[derive(Clone, Debug, Serialize, Deserialize)]
pub struct RootCall {
    pub start_ms: u64,
    pub deadline_ms: i64,
    pub abandon: Option<Ab2>,
    pub trace: u64,
    pub sampled: bool,
    pub leaf: Vec<HStep>,
}

#[derive(Clone, Debug, Serialize, Deserialize)]
pub struct E2eScn {
    pub hops: Vec<HopScn>,
    pub calls: Vec<RootCall>,
    pub preempt_permille: u32,
    pub subscriber: u8,
    /// Clock skew (ms) of node k+1 relative to the root node; nodes joined by an in-memory link
    /// are one process and share a clock (the entry is ignored for them).
    #[serde(default)]
    pub skew_ms: Vec<i64>,
}

impl E2eScn {
    pub fn valid(&self) -> bool {
        !self.hops.is_empty()
            && self.hops.len() <= 3
            && self.hops.iter().all(|h| h.resp_buf >= 1 && h.max_in_flight >= 1 && h.pending_buf >= 1 && !matches!(h.link, LinkKind::MemBounded(0)) && h.pipe.pending_permille <= 900)
            && self.preempt_permille <= 1000
            && self.calls.iter().all(|c| match &c.abandon {
                Some(Ab2::WhenHandlerStarts(k)) => *k >= 1 && (*k as usize) <= self.hops.len(),
                _ => true,
            })
    }
}

#[derive(Clone, Copy, PartialEq, Eq)]
pub enum EFocus {
    General,
    Cascade,
    Deadlines,
    Trace,
}

pub fn gen(rng: &mut Rng, focus: EFocus) -> E2eScn {
    let depth = rng.range(1, 3) as usize;
    let subscriber = if focus == EFocus::Deadlines && rng.chance(250) {
        2
    } else if focus == EFocus::Trace && rng.chance(300) {
        // a log-only (formatting) subscriber: spans enabled but not backed by OpenTelemetry
        1
    } else if focus == EFocus::Trace && rng.chance(200) {
        2
    } else {
        0
    };
    let mut hops = Vec::new();
    for _ in 0..depth {
        let link = match rng.below(6) {
            0 | 1 => LinkKind::MemUnbounded,
            2 => LinkKind::MemBounded(rng.range(1, 3) as usize),
            3 | 4 => LinkKind::Json,
            _ => LinkKind::Bincode,
        };
        let small = [1usize, 2, 3];
        hops.push(HopScn {
            link,
            pipe: PipeCfg {
                pending_permille: *rng.pick(&[0u32, 0, 100]),
                partial_permille: *rng.pick(&[0u32, 300, 1000]),
                cap: 0,
                max_read: *rng.pick(&[0usize, 0, 5]),
                latency_ms: *rng.pick(&[0u64, 0, 1, 3, 7]),
            },
            limit: if rng.chance(200) { Some(*rng.pick(&[1usize, 2, 3])) } else { None },
            resp_buf: if rng.chance(400) { *rng.pick(&small) } else { 100 },
            max_in_flight: if rng.chance(300) { *rng.pick(&small) } else { 1000 },
            pending_buf: if rng.chance(300) { *rng.pick(&small) } else { 100 },
            stalls: if rng.chance(200) { vec![(rng.range(0, 10), rng.range(1, 15))] } else { vec![] },
        });
    }
    let n_calls = rng.range(1, 4) as usize;
    let mut calls = Vec::new();
    for _ in 0..n_calls {
        let deadline_ms = match focus {
            EFocus::Deadlines => *rng.pick(&[0i64, 1, 5, 20, 20, 50, 200, 1000, 11_000, 45_000]),
            _ => *rng.pick(&[5i64, 50, 200, 1000, 1000, 10_000, 60_000]),
        };
        let abandon = if rng.chance(match focus {
            EFocus::Cascade => 800,
            EFocus::Trace => 400,
            _ => 250,
        }) {
            Some(if rng.chance(500) { Ab2::AtMs(rng.range(0, 25)) } else { Ab2::WhenHandlerStarts(rng.range(1, depth as u64) as u8) })
        } else {
            None
        };
        let leaf = match rng.below(8) {
            0 => vec![],
            1 => vec![HStep::Yield(rng.range(1, 3) as u32)],
            2 | 3 => vec![HStep::SleepMs(rng.range(0, 15))],
            4 => vec![HStep::UntilDeadline(*rng.pick(&[-1i64, 0, 1]))],
            5 | 6 => vec![HStep::Never],
            _ => vec![HStep::SleepMs(rng.range(10, 60))],
        };
        calls.push(RootCall {
            start_ms: if rng.chance(600) { 0 } else { rng.range(0, 10) },
            deadline_ms,
            abandon,
            trace: rng.next() | 8,
            sampled: rng.chance(500),
            leaf,
        });
    }
    let skew_ms = if rng.chance(400) { (0..depth).map(|_| *rng.pick(&[0i64, 250, -250, 5_000, -5_000, 3_600_000])).collect() } else { vec![] };
    E2eScn { hops, calls, preempt_permille: if subscriber != 0 { 0 } else { *rng.pick(&[0u32, 0, 60, 250]) }, subscriber, skew_ms }
}

// ------------------------------------------------------------------------------------------
// type-erased transports

#[derive(Debug)]
pub struct AnyErr(pub String);
impl std::fmt::Display for AnyErr {
    fn fmt(&self, f: &mut std::fmt::Formatter<'_>) -> std::fmt::Result {
        write!(f, "{}", self.0)
    }
}
impl std::error::Error for AnyErr {}

pub trait StreamSink<I, O>: Stream<Item = Result<I, AnyErr>> + Sink<O, Error = AnyErr> {}
impl<T, I, O> StreamSink<I, O> for T where T: Stream<Item = Result<I, AnyErr>> + Sink<O, Error = AnyErr> {}

/// Adapts any transport's error type to `AnyErr`.
pub struct Erase<T> {
    inner: Pin<Box<T>>,
}
impl<T> Unpin for Erase<T> {}
impl<T, I, E> Stream for Erase<T>
where
    T: Stream<Item = Result<I, E>>,
    E: std::fmt::Debug,
{
    type Item = Result<I, AnyErr>;
    fn poll_next(mut self: Pin<&mut Self>, cx: &mut Context<'_>) -> Poll<Option<Self::Item>> {
        self.inner.as_mut().poll_next(cx).map(|o| o.map(|r| r.map_err(|e| AnyErr(format!("{e:?}")))))
    }
}
impl<T, O, E> Sink<O> for Erase<T>
where
    T: Sink<O, Error = E>,
    E: std::fmt::Debug,
{
    type Error = AnyErr;
    fn poll_ready(mut self: Pin<&mut Self>, cx: &mut Context<'_>) -> Poll<Result<(), AnyErr>> {
        self.inner.as_mut().poll_ready(cx).map_err(|e| AnyErr(format!("{e:?}")))
    }
    fn start_send(mut self: Pin<&mut Self>, item: O) -> Result<(), AnyErr> {
        self.inner.as_mut().start_send(item).map_err(|e| AnyErr(format!("{e:?}")))
    }
    fn poll_flush(mut self: Pin<&mut Self>, cx: &mut Context<'_>) -> Poll<Result<(), AnyErr>> {
        self.inner.as_mut().poll_flush(cx).map_err(|e| AnyErr(format!("{e:?}")))
    }
    fn poll_close(mut self: Pin<&mut Self>, cx: &mut Context<'_>) -> Poll<Result<(), AnyErr>> {
        self.inner.as_mut().poll_close(cx).map_err(|e| AnyErr(format!("{e:?}")))
    }
}

type CliT = Pin<Box<dyn StreamSink<Response<u64>, ClientMessage<u64>>>>;
type SrvT = Pin<Box<dyn StreamSink<ClientMessage<u64>, Response<u64>>>>;

fn erase_c<T>(t: T) -> CliT
where
    T: Stream + Sink<ClientMessage<u64>> + 'static,
    Erase<T>: StreamSink<Response<u64>, ClientMessage<u64>>,
{
    Box::pin(Erase { inner: Box::pin(t) })
}
fn erase_s<T>(t: T) -> SrvT
where
    T: Stream + Sink<Response<u64>> + 'static,
    Erase<T>: StreamSink<ClientMessage<u64>, Response<u64>>,
{
    Box::pin(Erase { inner: Box::pin(t) })
}

fn make_link(kind: &LinkKind, cfg: &PipeCfg) -> (CliT, SrvT) {
    match kind {
        LinkKind::MemUnbounded => {
            let (c, s) = tarpc::transport::channel::unbounded::<Response<u64>, ClientMessage<u64>>();
            (erase_c(c), erase_s(s))
        }
        LinkKind::MemBounded(cap) => {
            let (c, s) = tarpc::transport::channel::bounded::<Response<u64>, ClientMessage<u64>>(*cap);
            (erase_c(c), erase_s(s))
        }
        LinkKind::Json => {
            let (a, b) = pipe(cfg.clone());
            let c = tarpc::serde_transport::new::<End, Response<u64>, ClientMessage<u64>, Json<Response<u64>, ClientMessage<u64>>>(Framed::new(a, LengthDelimitedCodec::new()), Json::default());
            let s = tarpc::serde_transport::new::<End, ClientMessage<u64>, Response<u64>, Json<ClientMessage<u64>, Response<u64>>>(Framed::new(b, LengthDelimitedCodec::new()), Json::default());
            (erase_c(c), erase_s(s))
        }
        LinkKind::Bincode => {
            let (a, b) = pipe(cfg.clone());
            let c = tarpc::serde_transport::new::<End, Response<u64>, ClientMessage<u64>, Bincode<Response<u64>, ClientMessage<u64>>>(Framed::new(a, LengthDelimitedCodec::new()), Bincode::default());
            let s = tarpc::serde_transport::new::<End, ClientMessage<u64>, Response<u64>, Bincode<ClientMessage<u64>, Response<u64>>>(Framed::new(b, LengthDelimitedCodec::new()), Bincode::default());
            (erase_c(c), erase_s(s))
        }
    }
}

fn outcome_of(r: &Result<u64, RpcError>) -> Outcome {
    match r {
        Ok(b) => Outcome::Ok(*b),
        Err(RpcError::Server(e)) => Outcome::Server(format!("{:?}", e.kind), e.detail.clone()),
        Err(RpcError::DeadlineExceeded) => Outcome::DeadlineExceeded,
        Err(RpcError::Shutdown) => Outcome::Shutdown,
        Err(RpcError::Send(_)) => Outcome::Send,
        Err(RpcError::Channel(e)) => Outcome::Channel(chan_err_name(e).to_string()),
    }
}

#[derive(Default)]
struct HBoard {
    started: RefCell<HashMap<(u8, u32), bool>>,
    waiters: RefCell<Vec<(u8, u32, Waker)>>,
}
impl HBoard {
    fn set(&self, node: u8, inc: u32) {
        self.started.borrow_mut().insert((node, inc), true);
        let mut ws = self.waiters.borrow_mut();
        let mut i = 0;
        while i < ws.len() {
            if ws[i].0 == node && ws[i].1 == inc {
                let (_, _, w) = ws.swap_remove(i);
                w.wake();
            } else {
                i += 1;
            }
        }
    }
    fn reached(&self, node: u8, inc: u32, w: &Waker) -> bool {
        if self.started.borrow().contains_key(&(node, inc)) {
            return true;
        }
        self.waiters.borrow_mut().push((node, inc, w.clone()));
        false
    }
}

pub const ROOT_SPAN_BASE: u64 = 0x7100_0000;

struct E2eState {
    callers: Vec<usize>,
    chaos: Vec<usize>,
    dispatches: Vec<usize>,
    servers: Vec<usize>,
    shareds: Vec<Rc<ServerShared>>,
    root: Rc<RefCell<Option<client::Channel<u64, u64>>>>,
    root_dropped: bool,
    taps: Vec<Rc<RefCell<TapState>>>,
}

pub fn horizon_ms(s: &E2eScn) -> u64 {
    let mut h = 200u64;
    for c in &s.calls {
        h = h.max(c.start_ms + c.deadline_ms.max(0) as u64);
        for st in &c.leaf {
            if let HStep::SleepMs(x) = st {
                h = h.max(c.start_ms + x);
            }
        }
    }
    for hp in &s.hops {
        for (a, d) in &hp.stalls {
            h = h.max(a + d);
        }
    }
    h + 5_000
}

pub fn run(scn: &E2eScn, tape: Tape) -> RunOutput {
    let knobs = Knobs { preempt_permille: scn.preempt_permille, max_polls: 100_000, ..Knobs::default() };
    let scn2 = scn.clone();
    let _sub = crate::subscribers::install(scn.subscriber);
    run_sim(
        tape,
        knobs,
        horizon_ms(scn),
        true,
        |sim| {
            let scn = scn2;
            let n = scn.hops.len();
            let board = Rc::new(HBoard::default());
            let board_o = board.clone();
            *sim.observer.borrow_mut() = Some(Rc::new(move |k: &EvKind| {
                if let EvKind::HandlerStart { node, inc, .. } = k {
                    board_o.set(*node, *inc);
                }
            }));
            let mut dispatches = vec![0usize; n];
            let mut servers = vec![0usize; n];
            let mut shareds: Vec<Rc<ServerShared>> = Vec::new();
            let mut taps: Vec<Rc<RefCell<TapState>>> = Vec::new();
            let mut chaos = Vec::new();
            let mut next_client: Option<client::Channel<u64, u64>> = None;
            // build from the leaf backwards
            let leaf_plans: Vec<Vec<HStep>> = scn.calls.iter().map(|c| c.leaf.clone()).collect();
            let mut shared_by_hop: Vec<Option<Rc<ServerShared>>> = vec![None; n];
            // node_skew[k] = skew of node k (node 0 = root callers)
            let mut node_skew = vec![0i64; n + 1];
            for h in 0..n {
                let in_mem = matches!(scn.hops[h].link, LinkKind::MemUnbounded | LinkKind::MemBounded(_));
                node_skew[h + 1] = if in_mem { node_skew[h] } else { scn.skew_ms.get(h).copied().unwrap_or(0) };
            }
            if node_skew.iter().any(|s| *s != 0) {
                sim.count("fault.clock_skew");
            }
            for h in (0..n).rev() {
                let hop = &scn.hops[h];
                let node = (h + 1) as u8;
                let (ct, st) = make_link(&hop.link, &hop.pipe);
                let (ctap, ctap_st) = Tap::new(ct, (2 * h) as u8, "client", vec![]);
                let (stap, stap_st) = Tap::new(st, (2 * h + 1) as u8, "server", vec![]);
                // server
                let shared = ServerShared::new();
                *shared.next.borrow_mut() = next_client.take();
                shared.check_current.set(scn.subscriber == 2);
                let base = BaseChannel::new(tarpc::server::Config { pending_response_buffer: hop.resp_buf }, stap);
                let stap_m = stap_st.clone();
                let mon: Rc<dyn Fn(bool, bool)> = Rc::new(move |begin, pending| {
                    if begin {
                        stap_m.borrow_mut().mon.owner_poll_begin();
                    } else {
                        stap_m.borrow_mut().mon.owner_poll_end("server", pending);
                    }
                });
                let is_leaf = h == n - 1;
                let lp = leaf_plans.clone();
                let plans: Rc<dyn Fn(u64) -> HandlerPlan> = Rc::new(move |tag| HandlerPlan {
                    steps: if is_leaf { lp.get(tag as usize).cloned().unwrap_or_default() } else { vec![] },
                    err: false,
                    run: RunMode::Execute,
                });
                servers[h] = match hop.limit {
                    Some(l) => sim.spawn_opts(&format!("server{node}"), true, node_skew[h + 1], server_task_limited(sim.clone(), node, base.max_concurrent_requests(l), mon, plans, shared.clone())),
                    None => sim.spawn_opts(&format!("server{node}"), true, node_skew[h + 1], server_task(sim.clone(), node, base, mon, plans, shared.clone())),
                };
                shared_by_hop[h] = Some(shared);
                // client
                let mut cfg = client::Config::default();
                cfg.max_in_flight_requests = hop.max_in_flight;
                cfg.pending_request_buffer = hop.pending_buf;
                let client::NewClient { client, dispatch } = client::new(cfg, ctap);
                let (sim_d, ctap_d) = (sim.clone(), ctap_st.clone());
                let hnode = h as u8;
                dispatches[h] = sim.spawn_opts(&format!("dispatch{h}"), true, node_skew[h], async move {
                    let mut dispatch = Box::pin(dispatch);
                    let res = poll_fn(|cx| {
                        ctap_d.borrow_mut().mon.owner_poll_begin();
                        let r = dispatch.as_mut().poll(cx);
                        let d: &client::RequestDispatch<_, _, _> = &dispatch;
                        sim_d.log(EvKind::Sample { node: hnode, what: "c_in_flight", value: d.verif_in_flight() as u64 });
                        sim_d.log(EvKind::Sample { node: hnode, what: "c_timers", value: d.verif_timers() as u64 });
                        ctap_d.borrow_mut().mon.owner_poll_end("client", r.is_pending());
                        r
                    })
                    .await;
                    sim_d.log(EvKind::DispatchDone { node: hnode, res: match &res { Ok(()) => "Ok".into(), Err(e) => format!("Err({})", chan_err_name(e)) } });
                });
                next_client = Some(client);
                for (at, dur) in hop.stalls.clone() {
                    let (sim_c, st_c) = (sim.clone(), stap_st.clone());
                    let link = (2 * h + 1) as i64;
                    chaos.push(sim.spawn("stall", async move {
                        tokio::time::sleep(Duration::from_millis(at)).await;
                        sim_c.log(EvKind::Fault { kind: "stall_begin", arg: link });
                        sim_c.count("fault.stall");
                        TapState::set_blocked(&st_c, true);
                        tokio::time::sleep(Duration::from_millis(dur)).await;
                        sim_c.log(EvKind::Fault { kind: "stall_end", arg: link });
                        TapState::set_blocked(&st_c, false);
                    }));
                }
                taps.push(ctap_st);
                taps.push(stap_st);
            }
            for s in shared_by_hop.into_iter().flatten() {
                shareds.push(s);
            }
            let root = Rc::new(RefCell::new(next_client));
            let mut callers = Vec::new();
            for (i, c) in scn.calls.iter().enumerate() {
                let (sim_c, c2, root_c, board_c) = (sim.clone(), c.clone(), root.clone(), board.clone());
                callers.push(sim.spawn(&format!("caller{i}"), async move {
                    if c2.start_ms > 0 {
                        tokio::time::sleep(Duration::from_millis(c2.start_ms)).await;
                    }
                    let Some(ch) = root_c.borrow().clone() else { return };
                    let mut ctx = context::current();
                    let now = sim_c.now_ms();
                    ctx.deadline = sim_c.instant_at(now + c2.deadline_ms);
                    ctx.trace_context = trace::Context {
                        trace_id: trace::TraceId::from(trace128(c2.trace)),
                        span_id: trace::SpanId::from(ROOT_SPAN_BASE + i as u64),
                        sampling_decision: if c2.sampled { trace::SamplingDecision::Sampled } else { trace::SamplingDecision::Unsampled },
                    };
                    sim_c.log(EvKind::Invoke { call: i as u32, tag: i as u64, deadline_ms: now + c2.deadline_ms, trace: trace128(c2.trace), sampled: c2.sampled });
                    let mut fut = Box::pin(ch.call(ctx, i as u64));
                    let mut timer: Option<Pin<Box<tokio::time::Sleep>>> = match &c2.abandon {
                        Some(Ab2::AtMs(t)) => Some(Box::pin(tokio::time::sleep(Duration::from_millis(*t)))),
                        _ => None,
                    };
                    let r = poll_fn(|cx| {
                        let fire = match &c2.abandon {
                            Some(Ab2::AtMs(_)) => timer.as_mut().unwrap().as_mut().poll(cx).is_ready(),
                            Some(Ab2::WhenHandlerStarts(k)) => board_c.reached(*k, i as u32, cx.waker()),
                            None => false,
                        };
                        if fire {
                            return Poll::Ready(None);
                        }
                        fut.as_mut().poll(cx).map(Some)
                    })
                    .await;
                    match r {
                        None => {
                            sim_c.log(EvKind::Abandon { call: i as u32 });
                            sim_c.count("fault.root_call_abandoned");
                            drop(fut);
                            sim_c.log(EvKind::Note { what: "abandon_done", a: i as i64, b: 0 });
                        }
                        Some(res) => {
                            sim_c.log(EvKind::Resolve { call: i as u32, outcome: outcome_of(&res) });
                        }
                    }
                }));
            }
            E2eState { callers, chaos, dispatches, servers, shareds, root, root_dropped: false, taps }
        },
        |sim, st| {
            let callers_done = st.callers.iter().all(|c| sim.is_done(*c));
            let chaos_done = st.chaos.iter().all(|c| sim.is_done(*c));
            let handlers_done = st.shareds.iter().all(|s| s.handler_tasks.borrow().iter().all(|t| sim.is_done(*t)));
            if callers_done && chaos_done && handlers_done {
                if !st.root_dropped {
                    st.root_dropped = true;
                    sim.log(EvKind::Fault { kind: "drop_handles", arg: 0 });
                    let h = st.root.borrow_mut().take();
                    drop(h);
                    return IdleAct::Again;
                }
                if st.dispatches.iter().all(|d| sim.is_done(*d)) && st.servers.iter().all(|d| sim.is_done(*d)) {
                    return IdleAct::Stop;
                }
            }
            IdleAct::Wait
        },
        |sim, st, end| {
            let mut v = Vec::new();
            for t in &st.taps {
                v.append(&mut t.borrow_mut().mon.violations);
            }
            {
                let log = sim.log.borrow();
                v.extend(check(scn, &log, sim, end.horizon_reached));
            }
            if !sim.panics.borrow().is_empty() {
                v.retain(|x| x.rule == "panic" || x.rule == "spin");
            }
            drop(st);
            crate::finish_output(sim, v, end, "e2e")
        },
    )
}

fn viol(prop: &'static str, rule: &str, tags: &[&str], detail: String) -> Violation {
    Violation { prop, rule: rule.to_string(), tags: tags.iter().map(|s| s.to_string()).collect(), detail }
}

#[derive(Default, Clone, Debug)]
struct HopReq {
    id: u64,
    send_seq: u64,
    send_t: i64,
    deadline: i64,
    trace: u128,
    span: u64,
    sampled: bool,
    cancel: Option<(u64, u128, u64, bool)>,
    recv: Option<(u64, i64, i64)>, // server tap Next: seq, t, deadline as decoded
    resp_seen: Option<u64>,        // client tap Next Resp seq
}

pub fn check(scn: &E2eScn, log: &[Ev], sim: &Sim, horizon_reached: bool) -> Vec<Violation> {
    let mut v = Vec::new();
    let n = scn.hops.len();
    let ncalls = scn.calls.len();
    // per hop, per tag
    let mut reqs: Vec<HashMap<u64, HopReq>> = vec![HashMap::new(); n];
    let mut id2tag: Vec<HashMap<u64, u64>> = vec![HashMap::new(); n];
    // handlers: (node, tag) -> (start_seq, t, deadline, trace, span, sampled, end_seq)
    #[derive(Default, Clone)]
    struct H {
        start: Option<(u64, i64)>,
        deadline: i64,
        trace: u128,
        span: u64,
        sampled: bool,
        end: Option<(u64, i64, bool)>,
    }
    let mut handlers: HashMap<(u8, u64), H> = HashMap::new();
    let mut invoke: Vec<Option<(u64, i64, i64)>> = vec![None; ncalls];
    let mut resolve: Vec<Option<(u64, i64, Outcome)>> = vec![None; ncalls];
    let mut abandoned: Vec<Option<u64>> = vec![None; ncalls];
    let mut idles: Vec<(u64, i64)> = Vec::new();
    let mut stall_depth: HashMap<i64, i32> = HashMap::new();
    let mut any_stall_at_idle: Vec<bool> = Vec::new();
    let mut last_samples: HashMap<(u8, &'static str), u64> = HashMap::new();
    let mut samples_at_idle: Vec<HashMap<(u8, &'static str), u64>> = Vec::new();
    let mut cur_deltas: Vec<(i64, i64)> = Vec::new();
    let mut cur_trace_same: Vec<(i64, i64)> = Vec::new();
    let mut root_dropped: Option<u64> = None;
    for e in log {
        match &e.kind {
            EvKind::Note { what: "teardown", .. } => break,
            EvKind::Idle => {
                idles.push((e.seq, e.t));
                any_stall_at_idle.push(stall_depth.values().any(|d| *d > 0));
                samples_at_idle.push(last_samples.clone());
            }
            EvKind::Fault { kind: "stall_begin", arg } => *stall_depth.entry(*arg).or_insert(0) += 1,
            EvKind::Fault { kind: "stall_end", arg } => *stall_depth.entry(*arg).or_insert(0) -= 1,
            EvKind::Fault { kind: "drop_handles", .. } => root_dropped = Some(e.seq),
            EvKind::Sample { node, what, value } => {
                last_samples.insert((*node, *what), *value);
            }
            EvKind::Invoke { call, deadline_ms, .. } => invoke[*call as usize] = Some((e.seq, e.t, *deadline_ms)),
            EvKind::Resolve { call, outcome } => resolve[*call as usize] = Some((e.seq, e.t, outcome.clone())),
            EvKind::Note { what: "abandon_done", a, .. } => abandoned[*a as usize] = Some(e.seq),
            EvKind::Note { what: "ctx_current", a, b } => cur_deltas.push((*a, *b)),
            EvKind::Note { what: "ctx_current_trace", a, b } => cur_trace_same.push((*a, *b)),
            EvKind::HandlerStart { node, inc, deadline_ms, trace, span, sampled, .. } => {
                let h = handlers.entry((*node, *inc as u64)).or_default();
                h.start = Some((e.seq, e.t));
                h.deadline = *deadline_ms;
                h.trace = *trace;
                h.span = *span;
                h.sampled = *sampled;
            }
            EvKind::HandlerDrop { node, inc, finished, .. } => {
                handlers.entry((*node, *inc as u64)).or_default().end = Some((e.seq, e.t, *finished));
            }
            EvKind::TOp { link, op, res: Res::Ok, item: Some(it) } => {
                let h = (*link / 2) as usize;
                if h >= n {
                    continue;
                }
                let client_side = *link % 2 == 0;
                match (client_side, op, it) {
                    (true, Op::Send, Item::Req { id, tag, deadline_ms, trace, span, sampled }) => {
                        id2tag[h].insert(*id, *tag);
                        reqs[h].insert(*tag, HopReq { id: *id, send_seq: e.seq, send_t: e.t, deadline: *deadline_ms, trace: *trace, span: *span, sampled: *sampled, ..Default::default() });
                    }
                    (true, Op::Send, Item::Cancel { id, trace, span, sampled }) => {
                        if let Some(tag) = id2tag[h].get(id) {
                            if let Some(r) = reqs[h].get_mut(tag) {
                                r.cancel = Some((e.seq, *trace, *span, *sampled));
                            }
                        }
                    }
                    (true, Op::Next, Item::Resp { id, .. }) => {
                        if let Some(tag) = id2tag[h].get(id) {
                            if let Some(r) = reqs[h].get_mut(tag) {
                                r.resp_seen.get_or_insert(e.seq);
                            }
                        }
                    }
                    (false, Op::Next, Item::Req { tag, deadline_ms, .. }) => {
                        if let Some(r) = reqs[h].get_mut(tag) {
                            r.recv = Some((e.seq, e.t, *deadline_ms));
                        }
                    }
                    _ => {}
                }
            }
            _ => {}
        }
    }
    let in_mem = |h: usize| matches!(scn.hops[h].link, LinkKind::MemUnbounded | LinkKind::MemBounded(_));
    let link_tag = |h: usize| match scn.hops[h].link {
        LinkKind::Json => "json",
        LinkKind::Bincode => "bincode",
        _ => "in-memory",
    };
    let otel = scn.subscriber == 2;

    for tag in 0..ncalls as u64 {
        let Some((_, _, d_root)) = invoke[tag as usize] else { continue };
        let root_trace = trace128(scn.calls[tag as usize].trace);
        let root_sampled = scn.calls[tag as usize].sampled;
        let mut transit_sum = 0i64;
        let mut bound = d_root;
        let mut prev_span = ROOT_SPAN_BASE + tag;
        let mut spans = vec![prev_span];
        for h in 0..n {
            let Some(r) = reqs[h].get(&tag) else { break };
            // --- C18: what is transmitted
            if !otel {
                if r.trace != root_trace {
                    v.push(viol("C18", "trace-id-changed", &["chain"], format!("call {tag} hop {h}: transmitted trace {:x}, caller supplied {:x}", r.trace, root_trace)));
                }
                if r.sampled != root_sampled {
                    v.push(viol("C18", "trace-id-changed", &["chain", "sampling"], format!("call {tag} hop {h}: sampling decision changed")));
                }
            } else if h > 0 {
                // With the OpenTelemetry layer the first hop's trace is the root span's own; from
                // there on a nested call is made inside the handler's RPC span, whose remote
                // parent is the request being handled: same trace, same sampling decision.
                if let Some(up) = reqs[h - 1].get(&tag) {
                    if r.trace != up.trace {
                        v.push(viol("C18", "trace-id-changed", &["chain", "otel"], format!("call {tag} hop {h}: nested request transmitted with trace {:x}, the request being handled carried {:x}", r.trace, up.trace)));
                    }
                    if r.sampled != up.sampled {
                        v.push(viol("C18", "trace-id-changed", &["chain", "otel", "sampling"], format!("call {tag} hop {h}: sampling decision changed")));
                    }
                }
            }
            if spans.contains(&r.span) || r.span == 0 {
                v.push(viol("C18", "span-not-fresh", &["chain", "client"], format!("call {tag} hop {h}: request span {:x} is not fresh", r.span)));
            }
            spans.push(r.span);
            prev_span = r.span;
            if let Some((_, ct, cs, csamp)) = r.cancel {
                if ct != r.trace || cs != r.span || csamp != r.sampled {
                    v.push(viol("C18", "cancel-context", &["chain"], format!("call {tag} hop {h}: cancel carries ({ct:x},{cs:x},{csamp}), request carried ({:x},{:x},{})", r.trace, r.span, r.sampled)));
                }
            }
            // --- C07: deadline at this hop
            let caller_deadline = if h == 0 { d_root } else { handlers.get(&(h as u8, tag)).map(|x| x.deadline).unwrap_or(r.deadline) };
            if r.deadline != caller_deadline && (!otel || h > 0) {
                v.push(viol("C07", "nested-deadline", &[link_tag(h)], format!("call {tag} hop {h}: caller context deadline {caller_deadline}, request transmitted with {}", r.deadline)));
            }
            let Some(hd) = handlers.get(&((h + 1) as u8, tag)) else { continue };
            if hd.start.is_none() {
                continue;
            }
            if let Some((_, t_dec, _)) = r.recv {
                let transit = t_dec - r.send_t;
                transit_sum += transit.max(0);
                if in_mem(h) {
                    if hd.deadline != r.deadline {
                        v.push(viol("C07", if hd.deadline < r.deadline { "earlier" } else { "stretched" }, &["in-memory", "chain"], format!("call {tag} hop {h}: request deadline {}, handler observed {}", r.deadline, hd.deadline)));
                    }
                } else {
                    let d_eff = r.deadline.max(r.send_t);
                    if hd.deadline < d_eff {
                        v.push(viol("C07", "earlier", &[link_tag(h), "chain"], format!("call {tag} hop {h}: caller deadline {d_eff}, handler observed {}", hd.deadline)));
                    } else if hd.deadline > d_eff + transit {
                        v.push(viol("C07", "stretched", &[link_tag(h), "chain"], format!("call {tag} hop {h}: caller deadline {d_eff}, transit {transit} ms, handler observed {}", hd.deadline)));
                    }
                    if r.deadline <= r.send_t && hd.deadline != t_dec {
                        v.push(viol("C07", "expired-not-now", &[link_tag(h), "chain"], format!("call {tag} hop {h}: deadline had passed at encode time; handler observed {} but was decoded at {t_dec}", hd.deadline)));
                    }
                }
                // handler never outlives the root deadline by more than accumulated transit
                // an already expired deadline arrives as "now": the bound moves to the encode time
                bound = bound.max(r.send_t) + transit.max(0);
                if hd.deadline > bound {
                    v.push(viol("C07", "outlives", &["chain"], format!("call {tag}: handler at node {} observes deadline {}, root deadline {d_root}, accumulated transit {transit_sum}", h + 1, hd.deadline)));
                }
            }
            // --- C18: what the handler observes
            if hd.trace != r.trace || (hd.sampled != r.sampled && !otel) {
                v.push(viol("C18", "handler-mismatch", &["chain"], format!("call {tag} node {}: handler saw ({:x},{}), request carried ({:x},{})", h + 1, hd.trace, hd.sampled, r.trace, r.sampled)));
            }
            if spans.contains(&hd.span) || hd.span == 0 {
                v.push(viol("C18", "span-not-fresh", &["chain", "server"], format!("call {tag} node {}: handler span {:x} is not fresh", h + 1, hd.span)));
            }
            spans.push(hd.span);
        }
        let _ = prev_span;
    }
    if otel {
        for (tag, d) in &cur_deltas {
            if *d != 0 {
                v.push(viol("C07", "span-scope", &[], format!("call {tag}: context::current() inside the handler is {d} ms off the handler's deadline")));
            }
        }
        for (tag, same) in &cur_trace_same {
            if *same == 0 {
                v.push(viol("C18", "handler-mismatch", &["span-scope"], format!("call {tag}: context::current() inside the handler has a different trace id")));
            }
        }
    }

    // --- C04 cascade: after the root abandons, every unfinished handler down the chain is
    // dropped and every hop's wire shows the cancel
    for tag in 0..ncalls as u64 {
        let Some(a) = abandoned[tag as usize] else { continue };
        // the cancel needs the links' latency to travel down the chain
        let t_a = log.iter().find(|e| e.seq == a).map(|e| e.t).unwrap_or(0);
        let travel: i64 = scn.hops.iter().map(|h| if matches!(h.link, LinkKind::Json | LinkKind::Bincode) { h.pipe.latency_ms as i64 } else { 0 }).sum();
        // ... counted from the abandonment or from the end of the last stall that was in force
        // after it (a stalled sink legitimately holds the cascade up)
        let t_from = log
            .iter()
            .filter(|e| matches!(e.kind, EvKind::Fault { kind: "stall_end", .. }) && e.t >= t_a)
            .map(|e| e.t)
            .max()
            .unwrap_or(t_a)
            .max(t_a);
        let Some(pos) = idles.iter().position(|(s, t)| *s > a && *t >= t_from + travel + if travel > 0 { 1 } else { 0 }) else { continue };
        // first such idle point at which no tap is stalled
        let Some(pos) = (pos..idles.len()).find(|p| !any_stall_at_idle[*p]) else { continue };
        let (iseq, it) = idles[pos];
        for h in 0..n {
            if let Some(r) = reqs[h].get(&tag) {
                // A cancel is owed on hop 0 by the abandonment itself; on a deeper hop only once
                // the handler that issued the nested call has been dropped unfinished (it is not
                // if no cancel reached it because the caller's deadline had already expired at
                // the sender: its own deadline then ends it, C06).
                let owed = h == 0
                    || handlers.get(&(h as u8, tag)).and_then(|hd| hd.end).map(|(s, _, finished)| s < iseq && !finished).unwrap_or(false);
                if owed && r.send_seq < iseq && r.cancel.is_none() {
                    let replied = r.resp_seen.map(|s| s < iseq).unwrap_or(false);
                    let expired = r.deadline <= it;
                    if !replied && !expired {
                        v.push(viol("C04", "cascade-incomplete", &["no-cancel"], format!("call {tag} abandoned at seq {a}: hop {h} carries its request but no cancel by idle seq {iseq}")));
                    }
                }
            }
            // the handler has to go once the cancel for its request is on the wire (when no cancel
            // is owed — reply seen, or the deadline expired at the sender, whose clock and transit
            // time differ from the receiver's — the receiver's own deadline ends it: C06)
            let cancel_sent = reqs[h].get(&tag).and_then(|r| r.cancel).map(|c| c.0 < iseq).unwrap_or(false);
            if let Some(hd) = handlers.get(&((h + 1) as u8, tag)).filter(|_| cancel_sent) {
                if let Some((s, _)) = hd.start {
                    if s < iseq && !hd.end.map(|e| e.0 < iseq).unwrap_or(false) && hd.deadline > it {
                        v.push(viol("C04", "cascade-incomplete", &["handler-alive"], format!("call {tag} abandoned at seq {a}: handler at node {} still alive at idle seq {iseq}", h + 1)));
                    }
                }
            }
        }
    }

    // --- C01/C02 end to end
    for tag in 0..ncalls {
        if invoke[tag].is_none() {
            continue;
        }
        match &resolve[tag] {
            Some((_, _, Outcome::Ok(b))) => {
                let want = 50_000 + tag as u64 + (n as u64 - 1);
                if *b != want {
                    v.push(viol("C01", "e2e-wrong-body", &[], format!("call {tag} returned {b}, the chain computes {want}")));
                }
            }
            None if abandoned[tag].is_none() && !sim.overrun.get() => {
                v.push(viol("C02", "hang", &["e2e", if horizon_reached { "horizon" } else { "stopped" }], format!("call {tag} never resolved")));
            }
            _ => {}
        }
        if let (Some((_, t, Outcome::DeadlineExceeded)), Some((_, _, d))) = (&resolve[tag], invoke[tag]) {
            if *t < d {
                v.push(viol("C05", "early", &["e2e"], format!("call {tag}: DeadlineExceeded at {t} < {d}")));
            }
        }
    }

    // --- C11 e2e: once everything has ended, nothing is tracked anywhere
    if let Some(rd) = root_dropped {
        if let Some(pos) = idles.iter().position(|(s, _)| *s > rd) {
            let _ = pos;
        }
        // the idle point at which the harness dropped the root handle is the first at which all
        // calls and handlers had ended
        if let Some(pos) = idles.iter().rposition(|(s, _)| *s < rd) {
            if !any_stall_at_idle[pos] {
                for ((node, what), val) in &samples_at_idle[pos] {
                    if *val != 0 {
                        let rule = if what.ends_with("timers") { "leak-timer" } else { "leak-entry" };
                        let side = if what.starts_with('c') { "client" } else { "server" };
                        let mut tags = vec!["e2e", side];
                        if side == "server" && *node >= 1 && scn.hops[(*node - 1) as usize].limit.is_some() {
                            tags.push("limit");
                        }
                        v.push(viol("C11", rule, &tags, format!("all calls and handlers ended, yet {what} = {val} at node {node} (idle seq {})", idles[pos].0)));
                    }
                }
            }
        }
    }

    for (task, msg) in sim.panics.borrow().iter() {
        if msg.starts_with("SIM_SPIN") {
            continue;
        }
        v.push(viol(if scn.subscriber != 0 { "C16" } else { "C02" }, "panic", &[crate::panic_class(msg), "e2e"], format!("task {} panicked: {}", sim.names.borrow()[*task], msg)));
    }
    v
}

// keep otherwise-unused imports referenced
#[allow(dead_code)]
fn _unused(_: &dyn Future<Output = ()>) {}
