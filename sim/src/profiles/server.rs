//! P-server: the real server channel (`BaseChannel`, `Requests`, `InFlightRequest::execute`,
//! optional `MaxRequests`, server in-flight table + DelayQueue, Abortable) over a `SimTransport`
//! with a scripted client peer and scripted handlers.

use crate::exec::{preempt, run_sim, IdleAct, Knobs, Sim};
use crate::hist::{Ev, EvKind, Item, Op, Res};
use crate::profiles::client::Dl;
use crate::tape::{Rng, Tape};
use crate::transport::{sim_link, LinkCfg, PeerEnd, SimTransport};
use crate::{RunOutput, Violation};
use futures::future::poll_fn;
use futures::{Future, Stream};
use serde::{Deserialize, Serialize};
use std::cell::{Cell, RefCell};
use std::collections::{BTreeMap, HashMap};
use std::pin::Pin;
use std::rc::Rc;
use std::task::Poll;
use std::time::Duration;
use tarpc::server::{self, BaseChannel, Channel, InFlightRequest, Serve};
use tarpc::{context, trace, ClientMessage, Request, Response, ServerError};

pub const THROTTLE_DETAIL: &str = "server throttled the request.";

#[derive(Clone, Debug, Serialize, Deserialize, PartialEq)]
pub enum IdRef {
    Fresh,
    /// Same id as the request sent by script entry `i` (meant: while it is still in flight).
    DupOf(usize),
    /// Same id as script entry `i`, sent only after its response was seen on the wire.
    ReuseOf(usize),
    Raw(u64),
}

#[derive(Clone, Debug, Serialize, Deserialize, PartialEq)]
pub enum CancelOf {
    Entry(usize),
    Unknown(u64),
}

#[derive(Clone, Debug, Serialize, Deserialize)]
pub enum PeerKind {
    /// `untraced`: all-zero trace id; with `sampled` false the whole trace context is the default one (as an untraced client sends), with `sampled` true span id and sampling decision are kept
    Req { id: IdRef, deadline: Dl, sampled: bool, #[serde(default)] untraced: bool },
    Cancel { of: CancelOf },
    /// The peer ends the inbound side here (nothing is sent afterwards).
    HalfClose,
}

#[derive(Clone, Debug, Serialize, Deserialize)]
pub struct PeerAct {
    /// Delay (virtual ms) after the previous action.
    pub delay_ms: u64,
    pub kind: PeerKind,
}

#[derive(Clone, Debug, Serialize, Deserialize, PartialEq)]
pub enum HStep {
    Yield(u32),
    SleepMs(u64),
    /// Sleep until the request's deadline plus this offset (ms).
    UntilDeadline(i64),
    Never,
    /// The handler itself drives a small tarpc server inline (a gateway that serves a backend
    /// connection from inside a request): a JSON peer sends that server one request without a
    /// deadline, and what the inner channel hands out is logged.
    InnerNoDeadline,
    /// The handler panics; the executor contains the panic (the task ends, its future is dropped
    /// by the unwind), as tokio does for a spawned task.
    Panic,
}

#[derive(Clone, Debug, Serialize, Deserialize, PartialEq)]
pub enum RunMode {
    Execute,
    /// The application drops the InFlightRequest without running it.
    DropUnrun,
    /// The application drops the execute future after this many polls.
    DropAfterPolls(u32),
}

#[derive(Clone, Debug, Serialize, Deserialize)]
pub struct HandlerPlan {
    pub steps: Vec<HStep>,
    pub err: bool,
    pub run: RunMode,
}

#[derive(Clone, Debug, Serialize, Deserialize)]
pub struct ServerScn {
    pub resp_buf: usize,
    pub limit: Option<usize>,
    pub link: LinkCfg,
    pub stalls: Vec<(u64, u64)>,
    pub script: Vec<PeerAct>,
    /// Handler plan per script entry (index = tag).
    pub handlers: Vec<HandlerPlan>,
    pub eof_at_end: bool,
    pub drop_stream_at: Option<u64>,
    pub preempt_permille: u32,
    pub subscriber: u8,
    /// Run for simulated years (deadlines beyond a single timer's span).
    #[serde(default)]
    pub long: bool,
    /// ‰ of scheduling steps that poll a task that was not woken (legal for any future).
    #[serde(default)]
    pub spurious_permille: u32,
    /// With a limit: the application first takes this many requests from the bare channel by
    /// hand (and keeps them), and only then wraps the channel in the limiter — so the limiter
    /// starts on a channel that may already hold more than L requests.
    #[serde(default)]
    pub pre_read: u8,
    /// A second, looser limit on the same channel (`limit` stays the effective one): the channel
    /// is wrapped twice, the looser limit inside (true) or outside (false).
    #[serde(default)]
    pub chain: Option<(usize, bool)>,
    /// The (first) limit is a listener-wide default (`Incoming::max_concurrent_requests_per_channel`)
    /// instead of a call on the channel itself.
    #[serde(default)]
    pub via_listener: bool,
    /// Clock jumps: at virtual ms `.0` the clock is advanced by `.1` ms at once.
    #[serde(default)]
    pub jumps: Vec<(u64, u64)>,
}

impl ServerScn {
    pub fn valid(&self) -> bool {
        self.resp_buf >= 1
            && self.preempt_permille <= 1000
            && self.handlers.len() >= self.script.len()
            && self.script.iter().enumerate().all(|(i, a)| match &a.kind {
                PeerKind::Req { id: IdRef::DupOf(j), .. } | PeerKind::Req { id: IdRef::ReuseOf(j), .. } => {
                    *j < i && matches!(self.script[*j].kind, PeerKind::Req { .. })
                }
                PeerKind::Cancel { of: CancelOf::Entry(j) } => *j < i && matches!(self.script[*j].kind, PeerKind::Req { .. }),
                _ => true,
            })
    }
}

#[derive(Clone, Copy, Debug, PartialEq, Eq)]
pub enum SFocus {
    General,
    Cancel,
    Deadlines,
    Limit,
    Dups,
    Shutdown,
    Extreme,
    Independent,
    Faults,
    /// Handlers that finish while the response buffer is full and the sink is stalled (their
    /// response send is parked), then cancels / id reuse / expiry hit the parked request.
    Parked,
    /// only long-horizon runs
    Long,
}

fn gen_parked(rng: &mut Rng) -> ServerScn {
    let n_fill = rng.range(1, 2) as usize; // requests whose responses fill buffer and sink
    let mut script = Vec::new();
    let mut handlers = Vec::new();
    let fast = |rng: &mut Rng| HandlerPlan { steps: if rng.chance(500) { vec![] } else { vec![HStep::Yield(1)] }, err: false, run: RunMode::Execute };
    for _ in 0..=n_fill {
        script.push(PeerAct { delay_ms: 0, kind: PeerKind::Req { id: IdRef::Fresh, deadline: Dl::Ms(*rng.pick(&[50i64, 1000])), sampled: false, untraced: false } });
        handlers.push(fast(rng));
    }
    // the victim: finishes quickly, parks on the full buffer
    let victim = script.len();
    script.push(PeerAct { delay_ms: 0, kind: PeerKind::Req { id: IdRef::Fresh, deadline: Dl::Ms(*rng.pick(&[8i64, 50, 1000])), sampled: false, untraced: false } });
    handlers.push(fast(rng));
    // then: cancel it, and/or reuse its id, at small delays
    if rng.chance(800) {
        script.push(PeerAct { delay_ms: rng.range(0, 3), kind: PeerKind::Cancel { of: CancelOf::Entry(victim) } });
        handlers.push(fast(rng));
    }
    if rng.chance(800) {
        script.push(PeerAct { delay_ms: rng.range(0, 3), kind: PeerKind::Req { id: IdRef::DupOf(victim), deadline: Dl::Ms(1000), sampled: false, untraced: false } });
        handlers.push(HandlerPlan { steps: vec![HStep::SleepMs(rng.range(5, 40))], err: false, run: RunMode::Execute });
    }
    if rng.chance(300) {
        script.push(PeerAct { delay_ms: rng.range(0, 5), kind: PeerKind::Req { id: IdRef::DupOf(victim), deadline: Dl::Ms(1000), sampled: false, untraced: false } });
        handlers.push(fast(rng));
    }
    ServerScn {
        resp_buf: 1,
        limit: None,
        link: LinkCfg { cap: 1, coupled: true, sticky: true, faults: vec![], explicit_flush: false },
        stalls: vec![(0, rng.range(4, 25))],
        script,
        handlers,
        eof_at_end: true,
        drop_stream_at: None,
        preempt_permille: *rng.pick(&[0u32, 0, 60]),
        subscriber: 0,
        long: false,
        spurious_permille: 0,
        jumps: vec![],
        pre_read: 0,
        chain: None,
        via_listener: false,
    }
}

/// A flood at the limit: L requests whose handlers keep running, then dozens more in one burst
/// over an always-ready transport (every excess request must be refused, however many of them
/// one poll of the channel gets to read).
fn gen_flood(rng: &mut Rng) -> ServerScn {
    let limit = *rng.pick(&[0usize, 1, 1, 2]);
    let n = rng.range(36, 90) as usize;
    let mut script = Vec::new();
    let mut handlers = Vec::new();
    for i in 0..limit + n {
        script.push(PeerAct { delay_ms: 0, kind: PeerKind::Req { id: IdRef::Fresh, deadline: Dl::Ms(10_000), sampled: false, untraced: false } });
        let steps = if i < limit { vec![HStep::Never] } else { vec![] };
        handlers.push(HandlerPlan { steps, err: false, run: RunMode::Execute });
    }
    ServerScn {
        resp_buf: 100,
        limit: Some(limit),
        link: LinkCfg { cap: 0, coupled: true, sticky: true, faults: vec![], explicit_flush: false },
        stalls: vec![],
        script,
        handlers,
        eof_at_end: true,
        drop_stream_at: None,
        preempt_permille: 0,
        subscriber: 0,
        long: false,
        spurious_permille: 0,
        jumps: vec![],
        pre_read: 0,
        chain: if rng.chance(250) { Some((limit + rng.range(1, 40) as usize, rng.chance(500))) } else { None },
        via_listener: rng.chance(200),
    }
}

pub fn gen(rng: &mut Rng, focus: SFocus) -> ServerScn {
    if focus == SFocus::Parked {
        return gen_parked(rng);
    }
    if focus == SFocus::Limit && rng.chance(40) {
        return gen_flood(rng);
    }
    if focus == SFocus::Extreme && rng.chance(20) {
        return gen_cancel_flood(rng);
    }
    if focus == SFocus::Deadlines && rng.chance(1) {
        return gen_mega(rng);
    }
    if matches!(focus, SFocus::Deadlines | SFocus::Dups) && rng.chance(30) {
        return gen_overdue_reuse(rng);
    }
    if focus == SFocus::Deadlines && rng.chance(3) {
        return gen_overdue_flood(rng);
    }
    if focus == SFocus::Limit && rng.chance(40) {
        return gen_prebusy(rng);
    }
    if focus == SFocus::Limit && rng.chance(40) {
        return gen_limit_backpressure(rng);
    }
    let n = rng.range(1, if focus == SFocus::Limit { 8 } else { 6 }) as usize;
    let small = [1usize, 2, 3];
    let resp_buf = if rng.chance(600) { *rng.pick(&small) } else { 100 };
    let limit = match focus {
        // "no limit" spelled as the largest number there is, and its neighbours in signed terms
        SFocus::Limit if rng.chance(40) => Some(*rng.pick(&[usize::MAX, usize::MAX - 1, isize::MAX as usize + 1, isize::MAX as usize])),
        SFocus::Limit => Some(*rng.pick(&[0usize, 1, 1, 2, 2, 3])),
        SFocus::Dups => None,
        _ => {
            if rng.chance(350) {
                Some(*rng.pick(&[1usize, 2, 3]))
            } else {
                None
            }
        }
    };
    let cap = if rng.chance(600) { *rng.pick(&small) } else { 0 };
    let coupled = focus != SFocus::Independent;
    let mut script: Vec<PeerAct> = Vec::new();
    let mut handlers = Vec::new();
    let burst = rng.chance(600);
    for i in 0..n {
        let delay_ms = if burst { 0 } else { rng.range(0, 8) };
        let reqs_before: Vec<usize> = (0..i).filter(|j| matches!(script[*j].kind, PeerKind::Req { .. })).collect();
        let cancel_p = match focus {
            SFocus::Cancel => 400,
            SFocus::Limit => 250,
            SFocus::Deadlines => 80,
            _ => 200,
        };
        let kind = if !reqs_before.is_empty() && rng.chance(cancel_p) {
            if rng.chance(800) {
                PeerKind::Cancel { of: CancelOf::Entry(*rng.pick(&reqs_before)) }
            } else {
                PeerKind::Cancel { of: CancelOf::Unknown(*rng.pick(&[1u64, 77, 12345, u64::MAX - 1])) }
            }
        } else {
            let dup_p = if focus == SFocus::Dups { 400 } else { 80 };
            // ids are reused only while in flight or after completion (the property's
            // quantifier): never after a cancel of that entry was scripted
            let cancelled: Vec<usize> = script.iter().filter_map(|a| match &a.kind {
                PeerKind::Cancel { of: CancelOf::Entry(j) } => Some(*j),
                _ => None,
            }).collect();
            let dupable: Vec<usize> = if focus == SFocus::Dups {
                reqs_before.clone()
            } else {
                reqs_before.iter().copied().filter(|j| !cancelled.contains(j)).collect()
            };
            let raw = *rng.pick(&[0u64, u64::MAX, 1 << 32]);
            let raw_used = script.iter().any(|a| matches!(&a.kind, PeerKind::Req { id: IdRef::Raw(x), .. } if *x == raw));
            let id = if !dupable.is_empty() && rng.chance(dup_p) {
                if rng.chance(500) {
                    IdRef::DupOf(*rng.pick(&dupable))
                } else {
                    IdRef::ReuseOf(*rng.pick(&dupable))
                }
            } else if rng.chance(60) && !raw_used {
                IdRef::Raw(raw)
            } else {
                IdRef::Fresh
            };
            let deadline = match focus {
                SFocus::Extreme => match rng.below(10) {
                    0 => Dl::Secs(u64::MAX),
                    1 => Dl::Secs(u64::MAX / 2),
                    2 => Dl::Ms((1i64 << 36) + 1),
                    3 => Dl::Ms((1i64 << 36) - 1),
                    4 => Dl::Secs(100 * 365 * 86400),
                    5 => Dl::Secs(8000 * 365 * 86400),
                    6 => Dl::SecsNanos(1u64 << 40, 999_999_999),
                    7 => Dl::Ms(0),
                    _ => Dl::Ms(1000),
                },
                SFocus::Deadlines => Dl::Ms(*rng.pick(&[-5i64, 0, 1, 2, 5, 5, 10, 20, 50])),
                _ => Dl::Ms(*rng.pick(&[-5i64, 0, 5, 20, 50, 1000, 1000, 10_000, 10_000])),
            };
            PeerKind::Req { id, deadline, sampled: rng.chance(500), untraced: rng.chance(150) }
        };
        script.push(PeerAct { delay_ms, kind });
        // handler plan (used only if the entry is a request that gets yielded)
        let mut steps = Vec::new();
        match focus {
            SFocus::Deadlines => match rng.below(8) {
                0 => {}
                1 => steps.push(HStep::Yield(rng.range(1, 3) as u32)),
                2 => steps.push(HStep::UntilDeadline(-2)),
                3 => steps.push(HStep::UntilDeadline(-1)),
                4 => steps.push(HStep::UntilDeadline(0)),
                5 => steps.push(HStep::UntilDeadline(1)),
                6 => steps.push(HStep::SleepMs(rng.range(0, 8))),
                _ => steps.push(HStep::Never),
            },
            _ => match rng.below(10) {
                0 | 1 => {}
                2 | 3 => steps.push(HStep::Yield(rng.range(1, 3) as u32)),
                4 | 5 | 6 => steps.push(HStep::SleepMs(rng.range(0, 12))),
                7 => {
                    steps.push(HStep::Yield(1));
                    steps.push(HStep::SleepMs(rng.range(1, 6)));
                }
                8 => steps.push(HStep::UntilDeadline(*rng.pick(&[-1i64, 0, 1]))),
                _ => steps.push(HStep::Never),
            },
        }
        if matches!(focus, SFocus::General | SFocus::Deadlines) && rng.chance(40) {
            steps.insert(0, HStep::InnerNoDeadline);
        }
        let run = if rng.chance(80) {
            RunMode::DropUnrun
        } else if rng.chance(80) {
            RunMode::DropAfterPolls(rng.range(0, 2) as u32)
        } else {
            RunMode::Execute
        };
        handlers.push(HandlerPlan { steps, err: rng.chance(150), run });
    }
    let mut stalls = Vec::new();
    if rng.chance(match focus {
        SFocus::Limit | SFocus::Independent => 500,
        _ => 300,
    }) {
        for _ in 0..rng.range(1, 2) {
            stalls.push((rng.range(0, 12), rng.range(1, 30)));
        }
    }
    if (focus == SFocus::Shutdown && rng.chance(700)) || (focus == SFocus::General && rng.chance(100)) {
        script.push(PeerAct { delay_ms: rng.range(0, 5), kind: PeerKind::HalfClose });
        handlers.push(HandlerPlan { steps: vec![], err: false, run: RunMode::Execute });
        if stalls.is_empty() && rng.chance(600) {
            stalls.push((rng.range(0, 6), rng.range(1, 20)));
        }
    }
    let subscriber = if focus == SFocus::Extreme {
        rng.below(3) as u8
    } else if focus == SFocus::Deadlines && rng.chance(200) {
        2
    } else if focus == SFocus::General && rng.chance(100) {
        // a log-only (formatting) subscriber
        1
    } else if focus == SFocus::General && rng.chance(100) {
        // the OpenTelemetry layer: the handler's context is derived from the RPC span
        2
    } else {
        0
    };
    let long = (focus == SFocus::Extreme && rng.chance(250)) || focus == SFocus::Long;
    if long {
        // one or two requests with deadlines years ahead whose handlers never finish
        script.truncate(2);
        handlers.truncate(2);
        let mut total_days = 0u64;
        for a in script.iter_mut() {
            // a request may also be the first thing that happens on a connection that has been
            // quiet for months (nothing has advanced the timer queue), or arrive while an
            // earlier request's timer has been pending for more than a year
            let days = *rng.pick(&[0u64, 0, 0, 70, 200, 365, 380, 400, 440, 600]);
            let days = if total_days + days > 700 { 0 } else { days };
            total_days += days;
            a.delay_ms = days * 86_400_000;
            a.kind = PeerKind::Req { id: IdRef::Fresh, deadline: Dl::Secs(*rng.pick(&[365u64, 400, 400, 700, 1278, 1500, 3650, 10_950]) * 86_400), sampled: false, untraced: false };
        }
        for h in handlers.iter_mut() {
            h.steps = vec![HStep::Never];
            h.run = RunMode::Execute;
        }
        // sometimes the peer re-sends the first request's id a year or more later, while the
        // original is (as far as its deadline goes) still being served
        if rng.chance(300) {
            let days = *rng.pick(&[366u64, 400, 500]);
            let delay = (days.saturating_sub(total_days)).max(1) * 86_400_000;
            script.push(PeerAct { delay_ms: delay, kind: PeerKind::Req { id: IdRef::DupOf(0), deadline: Dl::Secs(30 * 86_400), sampled: false, untraced: false } });
            handlers.push(HandlerPlan { steps: vec![HStep::Never], err: false, run: RunMode::Execute });
        }
        stalls.clear();
    }
    let mut faults = vec![];
    if focus == SFocus::Faults {
        use crate::transport::{FaultAt, Op2};
        let op = *rng.pick(&[Op2::Ready, Op2::Send, Op2::Flush, Op2::Next, Op2::Send, Op2::Next, Op2::Ready]);
        let k = match op {
            Op2::Send => rng.range(1, n as u64 + 1) as u32,
            _ => rng.range(1, 30) as u32,
        };
        faults.push(FaultAt { op, k });
    }
    if matches!(focus, SFocus::General | SFocus::Cancel | SFocus::Limit) && !long && subscriber == 0 && rng.chance(60) && !handlers.is_empty() {
        // one handler panics (after whatever else it does); the executor contains it
        let ix = rng.below(handlers.len() as u64) as usize;
        if handlers[ix].run == RunMode::Execute {
            handlers[ix].steps.retain(|s| *s != HStep::Never);
            handlers[ix].steps.push(HStep::Panic);
        }
    }
    ServerScn {
        resp_buf,
        limit,
        link: LinkCfg { cap, coupled, sticky: faults.is_empty() || rng.chance(600), faults, explicit_flush: coupled && cap > 0 && rng.chance(300) },
        stalls,
        script,
        handlers,
        eof_at_end: true,
        drop_stream_at: if focus != SFocus::Shutdown && !long && rng.chance(60) { Some(rng.range(0, 20)) } else { None },
        preempt_permille: if subscriber != 0 || long { 0 } else { *rng.pick(&[0u32, 0, 60, 250]) },
        subscriber,
        long,
        spurious_permille: if focus == SFocus::General && subscriber == 0 && rng.chance(120) { 100 } else { 0 },
        jumps: if focus == SFocus::Deadlines && !long && rng.chance(300) {
            (0..rng.range(1, 2)).map(|_| (rng.range(0, 20), *rng.pick(&[1u64, 3, 10, 40, 200]))).collect()
        } else if long && rng.chance(300) {
            // a step of two days across one of the instants at which year-long timers fire:
            // whatever was due inside it is overdue, not just due, when the endpoint runs again
            vec![(*rng.pick(&[364u64, 399, 699, 729]) * 86_400_000, 2 * 86_400_000)]
        } else {
            vec![]
        },
        pre_read: 0,
        chain: match limit {
            Some(l) if rng.chance(if focus == SFocus::Limit { 200 } else { 60 }) => Some((l.saturating_add(rng.range(1, 3) as usize), rng.chance(500))),
            _ => None,
        },
        via_listener: limit.is_some() && rng.chance(150),
    }
}

/// Two requests fall overdue inside one clock step, and in that same step the peer re-sends the id
/// of one of them: the channel meets two expiries and the reused id in one poll.
fn gen_overdue_reuse(rng: &mut Rng) -> ServerScn {
    let mut script = Vec::new();
    let mut handlers = Vec::new();
    let d0 = rng.range(4, 6) as i64;
    let d1 = d0 + rng.range(0, 2) as i64;
    for d in [d0, d1] {
        script.push(PeerAct { delay_ms: 0, kind: PeerKind::Req { id: IdRef::Fresh, deadline: Dl::Ms(d), sampled: false, untraced: false } });
        // never / well after the step / inside the step: the last one finishes overdue, and its
        // response is in the buffer when the channel next runs
        let step = match rng.below(3) {
            0 => HStep::Never,
            1 => HStep::SleepMs(rng.range(15, 30)),
            _ => HStep::SleepMs(rng.range(7, 13)),
        };
        handlers.push(HandlerPlan { steps: vec![step], err: false, run: RunMode::Execute });
    }
    let victim = rng.below(2) as usize;
    // delivered while the clock is being stepped (it lands at the end of the step)
    let third = if rng.chance(500) { IdRef::DupOf(victim) } else { IdRef::Fresh };
    script.push(PeerAct { delay_ms: rng.range(4, 9), kind: PeerKind::Req { id: third, deadline: Dl::Ms(1000), sampled: false, untraced: false } });
    handlers.push(HandlerPlan { steps: vec![HStep::SleepMs(rng.range(1, 5))], err: false, run: RunMode::Execute });
    ServerScn {
        resp_buf: 100,
        limit: None,
        link: LinkCfg { cap: 0, coupled: true, sticky: true, faults: vec![], explicit_flush: false },
        stalls: vec![],
        script,
        handlers,
        eof_at_end: true,
        drop_stream_at: None,
        preempt_permille: 0,
        subscriber: 0,
        long: false,
        spurious_permille: 0,
        jumps: vec![(3, 12)],
        pre_read: 0,
        chain: None,
        via_listener: false,
    }
}

/// More than a thousand requests in flight at once, most of them answered (the late ones
/// first, the earliest ones last), the rest left to their deadline: every one of those must be
/// aborted at its deadline, none before.
fn gen_mega(rng: &mut Rng) -> ServerScn {
    let n = rng.range(1100, 1300) as usize;
    let keep_from = rng.range(110, 150) as usize;
    let keep_to = rng.range(260, 300) as usize;
    let deadline = *rng.pick(&[60i64, 100]);
    let mut script = Vec::new();
    let mut handlers = Vec::new();
    for i in 0..n {
        script.push(PeerAct { delay_ms: 0, kind: PeerKind::Req { id: IdRef::Fresh, deadline: Dl::Ms(deadline), sampled: false, untraced: false } });
        let steps = if i >= keep_to {
            vec![HStep::SleepMs(5)]
        } else if i < keep_from {
            vec![HStep::SleepMs(10)]
        } else {
            vec![HStep::Never]
        };
        handlers.push(HandlerPlan { steps, err: false, run: RunMode::Execute });
    }
    ServerScn {
        resp_buf: 2000,
        limit: None,
        link: LinkCfg { cap: 0, coupled: true, sticky: true, faults: vec![], explicit_flush: false },
        stalls: vec![],
        script,
        handlers,
        eof_at_end: true,
        drop_stream_at: None,
        preempt_permille: 0,
        subscriber: 0,
        long: false,
        spurious_permille: 0,
        jumps: vec![],
        pre_read: 0,
        chain: None,
        via_listener: false,
    }
}

/// Hundreds of requests fall overdue in one clock step while their handlers finish inside that
/// step: when the channel runs again it finds more due timers than one poll's cooperative budget
/// (128 operations) lets it reap, and as many finished responses waiting in the buffer.
fn gen_overdue_flood(rng: &mut Rng) -> ServerScn {
    let n = rng.range(140, 320) as usize;
    let deadline = rng.range(4, 6) as i64;
    let mut script = Vec::new();
    let mut handlers = Vec::new();
    for _ in 0..n {
        script.push(PeerAct { delay_ms: 0, kind: PeerKind::Req { id: IdRef::Fresh, deadline: Dl::Ms(deadline), sampled: false, untraced: false } });
        let step = match rng.below(4) {
            0 => HStep::Never,
            _ => HStep::SleepMs(rng.range(7, 13)),
        };
        handlers.push(HandlerPlan { steps: vec![step], err: false, run: RunMode::Execute });
    }
    ServerScn {
        resp_buf: 400,
        limit: None,
        link: LinkCfg { cap: 0, coupled: true, sticky: true, faults: vec![], explicit_flush: false },
        stalls: vec![],
        script,
        handlers,
        eof_at_end: true,
        drop_stream_at: None,
        preempt_permille: 0,
        subscriber: 0,
        long: false,
        spurious_permille: 0,
        jumps: vec![(3, 12)],
        pre_read: 0,
        chain: None,
        via_listener: false,
    }
}

/// A flood of cancellations for ids never used, delivered in one burst around one live request
/// (whatever a peer sends, the endpoint neither panics nor dies another death).
fn gen_cancel_flood(rng: &mut Rng) -> ServerScn {
    let n = rng.range(1500, 3000) as usize;
    let mut script = Vec::new();
    let mut handlers = Vec::new();
    script.push(PeerAct { delay_ms: 0, kind: PeerKind::Req { id: IdRef::Fresh, deadline: Dl::Ms(1000), sampled: false, untraced: false } });
    handlers.push(HandlerPlan { steps: vec![HStep::Never], err: false, run: RunMode::Execute });
    for i in 0..n {
        script.push(PeerAct { delay_ms: 0, kind: PeerKind::Cancel { of: CancelOf::Unknown(1_000_000 + i as u64) } });
        handlers.push(HandlerPlan { steps: vec![], err: false, run: RunMode::Execute });
    }
    script.push(PeerAct { delay_ms: 0, kind: PeerKind::Cancel { of: CancelOf::Entry(0) } });
    handlers.push(HandlerPlan { steps: vec![], err: false, run: RunMode::Execute });
    // a well-formed request afterwards must still be served
    script.push(PeerAct { delay_ms: 1, kind: PeerKind::Req { id: IdRef::Fresh, deadline: Dl::Ms(1000), sampled: false, untraced: false } });
    handlers.push(HandlerPlan { steps: vec![], err: false, run: RunMode::Execute });
    ServerScn {
        resp_buf: 100,
        limit: if rng.chance(300) { Some(2) } else { None },
        link: LinkCfg { cap: 0, coupled: true, sticky: true, faults: vec![], explicit_flush: false },
        stalls: vec![],
        script,
        handlers,
        eof_at_end: true,
        drop_stream_at: None,
        preempt_permille: 0,
        subscriber: 0,
        long: false,
        spurious_permille: 0,
        jumps: vec![],
        pre_read: 0,
        chain: None,
        via_listener: false,
    }
}

/// At the limit behind back-pressure: a one-slot sink still holds an unflushed response while the
/// sink is stalled, a second response waits in the buffer, the channel is at its limit, and the
/// Cancel of the request that is still running arrives. When the stall ends, one poll of the
/// channel flushes, writes the waiting response (the count drops below the limit) and must then
/// go on to read the Cancel.
fn gen_limit_backpressure(rng: &mut Rng) -> ServerScn {
    let t_stall = rng.range(1, 2);
    let stall_len = rng.range(8, 14);
    let mut script = Vec::new();
    let mut handlers = Vec::new();
    let fin0 = t_stall + rng.range(0, 1);
    // r0: finishes during the stall, its response is staged in the sink but cannot be flushed
    script.push(PeerAct { delay_ms: 0, kind: PeerKind::Req { id: IdRef::Fresh, deadline: Dl::Ms(1000), sampled: false, untraced: false } });
    handlers.push(HandlerPlan { steps: vec![HStep::SleepMs(fin0)], err: false, run: RunMode::Execute });
    // r1: finishes a little later, its response waits in the response buffer
    script.push(PeerAct { delay_ms: 0, kind: PeerKind::Req { id: IdRef::Fresh, deadline: Dl::Ms(1000), sampled: false, untraced: false } });
    handlers.push(HandlerPlan { steps: vec![HStep::SleepMs(fin0 + rng.range(2, 3))], err: false, run: RunMode::Execute });
    // r2: arrives once r0 is out of the table (limit 2), keeps running
    script.push(PeerAct { delay_ms: fin0 + 1, kind: PeerKind::Req { id: IdRef::Fresh, deadline: Dl::Ms(1000), sampled: false, untraced: false } });
    handlers.push(HandlerPlan { steps: vec![HStep::Never], err: false, run: RunMode::Execute });
    // its Cancel arrives while the channel is at its limit and the sink is not ready
    script.push(PeerAct { delay_ms: rng.range(2, 4), kind: PeerKind::Cancel { of: CancelOf::Entry(2) } });
    handlers.push(HandlerPlan { steps: vec![], err: false, run: RunMode::Execute });
    ServerScn {
        resp_buf: *rng.pick(&[2usize, 3, 100]),
        limit: Some(2),
        link: LinkCfg { cap: 1, coupled: true, sticky: true, faults: vec![], explicit_flush: true },
        stalls: vec![(t_stall, stall_len)],
        script,
        handlers,
        eof_at_end: true,
        drop_stream_at: None,
        preempt_permille: 0,
        subscriber: 0,
        long: false,
        spurious_permille: 0,
        jumps: vec![],
        pre_read: 0,
        chain: None,
        via_listener: false,
    }
}

/// The limiter put on a channel that is already busy: the application has taken more than L
/// requests from the bare channel by hand before wrapping it.
fn gen_prebusy(rng: &mut Rng) -> ServerScn {
    let limit = *rng.pick(&[0usize, 1, 1, 2]);
    let pre = limit + rng.range(1, 2) as usize;
    let mut script = Vec::new();
    let mut handlers = Vec::new();
    for _ in 0..pre {
        script.push(PeerAct { delay_ms: 0, kind: PeerKind::Req { id: IdRef::Fresh, deadline: Dl::Ms(*rng.pick(&[30i64, 60])), sampled: false, untraced: false } });
        handlers.push(HandlerPlan { steps: vec![HStep::Never], err: false, run: RunMode::Execute });
    }
    for _ in 0..rng.range(2, 6) {
        script.push(PeerAct { delay_ms: rng.range(0, 3), kind: PeerKind::Req { id: IdRef::Fresh, deadline: Dl::Ms(1000), sampled: false, untraced: false } });
        let steps = match rng.below(3) {
            0 => vec![],
            1 => vec![HStep::SleepMs(rng.range(1, 10))],
            _ => vec![HStep::Never],
        };
        handlers.push(HandlerPlan { steps, err: false, run: RunMode::Execute });
    }
    ServerScn {
        resp_buf: 100,
        limit: Some(limit),
        link: LinkCfg { cap: 0, coupled: true, sticky: true, faults: vec![], explicit_flush: false },
        stalls: vec![],
        script,
        handlers,
        eof_at_end: true,
        drop_stream_at: None,
        preempt_permille: 0,
        subscriber: 0,
        long: false,
        spurious_permille: 0,
        jumps: vec![],
        pre_read: pre as u8,
        chain: None,
        via_listener: false,
    }
}

pub fn horizon_ms(s: &ServerScn) -> u64 {
    if s.long {
        return crate::profiles::client::LONG_HORIZON_MS;
    }
    let mut t = 0u64;
    let mut h = 100u64;
    for a in &s.script {
        t += a.delay_ms;
        if let PeerKind::Req { deadline, .. } = &a.kind {
            let d = match deadline {
                Dl::Ms(ms) => (*ms).max(0) as u64,
                Dl::Secs(s) | Dl::SecsNanos(s, _) => s.saturating_mul(1000),
            };
            h = h.max(t.saturating_add(d));
        }
    }
    for (a, d) in &s.stalls {
        h = h.max(a + d);
    }
    for hp in &s.handlers {
        for st in &hp.steps {
            if let HStep::SleepMs(x) = st {
                h = h.max(t + x);
            }
        }
    }
    h.saturating_add(3_000).min(4_000_000)
}

// ------------------------------------------------------------------------------------------
// Scripted handler

pub struct YieldOnce(bool);
impl Future for YieldOnce {
    type Output = ();
    fn poll(mut self: Pin<&mut Self>, cx: &mut std::task::Context<'_>) -> Poll<()> {
        if self.0 {
            Poll::Ready(())
        } else {
            self.0 = true;
            cx.waker().wake_by_ref();
            Poll::Pending
        }
    }
}
pub fn yield_once() -> YieldOnce {
    YieldOnce(false)
}

pub struct HandlerGuard {
    sim: Rc<Sim>,
    node: u8,
    id: u64,
    inc: u32,
    pub finished: bool,
}
impl Drop for HandlerGuard {
    fn drop(&mut self) {
        self.sim.log(EvKind::HandlerDrop { node: self.node, id: self.id, inc: self.inc, finished: self.finished });
    }
}

#[derive(Clone)]
pub struct ScriptedServe {
    pub sim: Rc<Sim>,
    pub node: u8,
    pub id: u64,
    pub plan: HandlerPlan,
    /// Next hop of a service chain: after its own steps the handler calls it with its context.
    pub next: Option<tarpc::client::Channel<u64, u64>>,
    /// Compare `context::current()` with the handler's context (OpenTelemetry layer installed).
    pub check_current: bool,
}

pub fn log_handler_start(sim: &Sim, node: u8, id: u64, inc: u32, ctx: &context::Context) {
    sim.log(EvKind::HandlerStart {
        node,
        id,
        inc,
        deadline_ms: sim.ms_of_local(ctx.deadline),
        deadline_us: sim.micros_of(ctx.deadline) as i64,
        trace: u128::from(ctx.trace_context.trace_id),
        span: u64::from(ctx.trace_context.span_id),
        sampled: ctx.trace_context.sampling_decision == trace::SamplingDecision::Sampled,
    });
}

impl Serve for ScriptedServe {
    type Req = u64;
    type Resp = u64;
    async fn serve(self, ctx: context::Context, req: u64) -> Result<u64, ServerError> {
        let inc = req as u32;
        let sim = self.sim.clone();
        log_handler_start(&sim, self.node, self.id, inc, &ctx);
        let mut guard = HandlerGuard { sim: sim.clone(), node: self.node, id: self.id, inc, finished: false };
        for st in &self.plan.steps {
            match st {
                HStep::Yield(k) => {
                    for _ in 0..*k {
                        yield_once().await;
                        sim.log(EvKind::HandlerPoll { node: self.node, id: self.id, inc });
                        preempt("handler:step");
                    }
                }
                HStep::SleepMs(t) => {
                    tokio::time::sleep(Duration::from_millis(*t)).await;
                    sim.log(EvKind::HandlerPoll { node: self.node, id: self.id, inc });
                    preempt("handler:step");
                }
                HStep::UntilDeadline(off) => {
                    let target = sim.ms_of_local(ctx.deadline).saturating_add(*off);
                    let wait = (target - sim.now_ms()).max(0) as u64;
                    tokio::time::sleep(Duration::from_millis(wait)).await;
                    sim.log(EvKind::HandlerPoll { node: self.node, id: self.id, inc });
                    preempt("handler:step");
                }
                HStep::Never => {
                    futures::future::pending::<()>().await;
                }
                HStep::Panic => {
                    std::panic::panic_any(format!("{} handler of request {}", crate::exec::SCRIPTED_PANIC, self.id));
                }
                HStep::InnerNoDeadline => {
                    use futures::StreamExt;
                    let (a, b) = crate::pipe::pipe(crate::pipe::PipeCfg::default());
                    let t = tarpc::serde_transport::new::<crate::pipe::End, ClientMessage<u64>, Response<u64>, tokio_serde::formats::Json<ClientMessage<u64>, Response<u64>>>(
                        tokio_util::codec::Framed::new(b, tokio_util::codec::LengthDelimitedCodec::new()),
                        tokio_serde::formats::Json::default(),
                    );
                    let mut inner = Box::pin(BaseChannel::with_defaults(t).requests());
                    let tc = serde_json::to_value(ctx.trace_context).unwrap();
                    let req = serde_json::json!({"Request": {"context": {"trace_context": tc}, "id": 1, "message": 5}});
                    let payload = serde_json::to_vec(&req).unwrap();
                    let mut f = (payload.len() as u32).to_be_bytes().to_vec();
                    f.extend_from_slice(&payload);
                    crate::pipe::inject(&a.wr, &f);
                    let t_dec = sim.now_ms();
                    match inner.next().await {
                        Some(Ok(r)) => {
                            let d = sim.ms_of_local(r.get().context.deadline);
                            sim.log(EvKind::Note { what: "inner_default_deadline", a: d - t_dec, b: sim.now_ms() - t_dec });
                        }
                        _ => {
                            sim.log(EvKind::Note { what: "inner_default_deadline", a: -1, b: -1 });
                        }
                    }
                    sim.count("probe.server_driven_inside_a_handler");
                    drop(inner);
                    drop(a);
                    sim.log(EvKind::HandlerPoll { node: self.node, id: self.id, inc });
                }
            }
        }
        if self.check_current {
            let cur = context::current();
            sim.log(EvKind::Note { what: "ctx_current", a: inc as i64, b: (sim.ms_of(cur.deadline) - sim.ms_of(ctx.deadline)) });
            let same_trace = cur.trace_context.trace_id == ctx.trace_context.trace_id;
            sim.log(EvKind::Note { what: "ctx_current_trace", a: inc as i64, b: same_trace as i64 });
        }
        let mut nested: Option<Result<u64, String>> = None;
        if let Some(next) = &self.next {
            sim.log(EvKind::Note { what: "nested_invoke", a: self.node as i64, b: inc as i64 });
            let r = next.call(ctx, req).await;
            sim.log(EvKind::Note { what: "nested_done", a: self.node as i64, b: inc as i64 });
            sim.log(EvKind::HandlerPoll { node: self.node, id: self.id, inc });
            nested = Some(r.map_err(|e| format!("{e}")));
        }
        guard.finished = true;
        sim.log(EvKind::HandlerFinish { node: self.node, id: self.id, inc });
        if let Some(r) = nested {
            return match r {
                Ok(v) => Ok(v + 1),
                Err(e) => Err(ServerError::new(std::io::ErrorKind::Other, format!("nested:{e}"))),
            };
        }
        if self.plan.err {
            Err(ServerError::new(std::io::ErrorKind::Other, format!("h{req}")))
        } else {
            Ok(50_000 + req)
        }
    }
}

// ------------------------------------------------------------------------------------------

pub trait Probe {
    fn timers(&self) -> usize;
}
impl<T> Probe for BaseChannel<u64, u64, T> {
    fn timers(&self) -> usize {
        self.verif_timers()
    }
}
impl<C: Probe> Probe for server::limits::requests_per_channel::MaxRequests<C> {
    fn timers(&self) -> usize {
        self.get_ref().timers()
    }
}

pub trait ErrName {
    fn activity(&self) -> &'static str;
}
impl<E> ErrName for tarpc::ChannelError<E> {
    fn activity(&self) -> &'static str {
        crate::profiles::client::chan_err_name(self)
    }
}

pub struct ServerShared {
    pub handler_tasks: RefCell<Vec<usize>>,
    pub stream_over: Cell<bool>,
    pub next: RefCell<Option<tarpc::client::Channel<u64, u64>>>,
    pub check_current: Cell<bool>,
}

impl ServerShared {
    pub fn new() -> Rc<Self> {
        Rc::new(ServerShared {
            handler_tasks: RefCell::new(Vec::new()),
            stream_over: Cell::new(false),
            next: RefCell::new(None),
            check_current: Cell::new(false),
        })
    }
}

/// The application side of a server channel: polls the request stream, starts (or drops) a
/// handler for every yielded request, stops at the first stream error like `Requests::execute`.
macro_rules! server_task_impl {
    ($name:ident, $chan:ty) => {
        pub async fn $name<T>(
            sim: Rc<Sim>,
            node: u8,
            chan: $chan,
            mon: Rc<dyn Fn(bool, bool)>,
            plans: Rc<dyn Fn(u64) -> HandlerPlan>,
            shared: Rc<ServerShared>,
        ) where
            T: tarpc::Transport<Response<u64>, ClientMessage<u64>> + 'static,
        {
            let mut requests = Box::pin(chan.requests());
            loop {
                let item = poll_fn(|cx| {
                    mon(true, false);
                    let r = requests.as_mut().poll_next(cx);
                    let ch = requests.channel();
                    sim.log(EvKind::Sample { node, what: "s_in_flight", value: ch.in_flight_requests() as u64 });
                    sim.log(EvKind::Sample { node, what: "s_timers", value: ch.timers() as u64 });
                    mon(false, r.is_pending());
                    r
                })
                .await;
                match item {
                    None => {
                        sim.log(EvKind::StreamEnd { node });
                        break;
                    }
                    Some(Err(e)) => {
                        sim.log(EvKind::StreamErr { node, activity: e.activity().to_string() });
                        break;
                    }
                    Some(Ok(req)) => {
                        start_handler(&sim, node, req, &plans, &shared);
                    }
                }
            }
            shared.stream_over.set(true);
            // the application is done with this channel: its handle on the next hop goes too
            shared.next.borrow_mut().take();
            drop(requests);
            sim.log(EvKind::Note { what: "stream_dropped", a: node as i64, b: 0 });
        }
    };
}
server_task_impl!(server_task, BaseChannel<u64, u64, T>);
server_task_impl!(server_task_limited, server::limits::requests_per_channel::MaxRequests<BaseChannel<u64, u64, T>>);
server_task_impl!(
    server_task_limited_twice,
    server::limits::requests_per_channel::MaxRequests<server::limits::requests_per_channel::MaxRequests<BaseChannel<u64, u64, T>>>
);

/// The channel as a listener with a default per-channel limit hands it out.
fn from_listener<T>(base: BaseChannel<u64, u64, T>, limit: usize) -> server::limits::requests_per_channel::MaxRequests<BaseChannel<u64, u64, T>>
where
    T: tarpc::Transport<Response<u64>, ClientMessage<u64>> + 'static,
{
    use futures::{FutureExt, StreamExt};
    use tarpc::server::incoming::Incoming;
    let mut listener = Box::pin(futures::stream::iter(vec![base]).max_concurrent_requests_per_channel(limit));
    listener.next().now_or_never().flatten().expect("the listener yields the channel it was given")
}

type TaskFuture = Pin<Box<dyn Future<Output = ()>>>;
type MonFn = Rc<dyn Fn(bool, bool)>;
type PlanFn = Rc<dyn Fn(u64) -> HandlerPlan>;

/// Whatever type `chan.max_concurrent_requests(a).max_concurrent_requests(b)` has, run the
/// application loop over it.
pub trait RunLimited {
    fn run_limited(self, sim: Rc<Sim>, node: u8, mon: MonFn, plans: PlanFn, shared: Rc<ServerShared>) -> TaskFuture;
}
impl<T> RunLimited for server::limits::requests_per_channel::MaxRequests<BaseChannel<u64, u64, T>>
where
    T: tarpc::Transport<Response<u64>, ClientMessage<u64>> + 'static,
{
    fn run_limited(self, sim: Rc<Sim>, node: u8, mon: MonFn, plans: PlanFn, shared: Rc<ServerShared>) -> TaskFuture {
        Box::pin(server_task_limited(sim, node, self, mon, plans, shared))
    }
}
impl<T> RunLimited for server::limits::requests_per_channel::MaxRequests<server::limits::requests_per_channel::MaxRequests<BaseChannel<u64, u64, T>>>
where
    T: tarpc::Transport<Response<u64>, ClientMessage<u64>> + 'static,
{
    fn run_limited(self, sim: Rc<Sim>, node: u8, mon: MonFn, plans: PlanFn, shared: Rc<ServerShared>) -> TaskFuture {
        Box::pin(server_task_limited_twice(sim, node, self, mon, plans, shared))
    }
}

pub fn start_handler(
    sim: &Rc<Sim>,
    node: u8,
    req: InFlightRequest<u64, u64>,
    plans: &Rc<dyn Fn(u64) -> HandlerPlan>,
    shared: &Rc<ServerShared>,
) {
    let r: &Request<u64> = req.get();
    let (id, tag) = (r.id, r.message);
    let inc = tag as u32;
    sim.log(EvKind::Yielded {
        node,
        id,
        tag,
        deadline_ms: sim.ms_of_local(r.context.deadline),
        trace: u128::from(r.context.trace_context.trace_id),
        span: u64::from(r.context.trace_context.span_id),
        sampled: r.context.trace_context.sampling_decision == trace::SamplingDecision::Sampled,
    });
    let plan = plans(tag);
    match plan.run.clone() {
        RunMode::DropUnrun => {
            sim.count("fault.drop_unrun");
            sim.log(EvKind::UnrunDropped { node, id, inc });
            drop(req);
        }
        mode => {
            let serve = ScriptedServe {
                sim: sim.clone(),
                node,
                id,
                plan,
                next: shared.next.borrow().clone(),
                check_current: shared.check_current.get(),
            };
            let sim2 = sim.clone();
            let limit = match mode {
                RunMode::DropAfterPolls(k) => Some(k),
                _ => None,
            };
            let t = sim.spawn(&format!("h{node}.{tag}"), async move {
                let mut fut = Box::pin(req.execute(serve));
                let mut polls = 0u32;
                let done = poll_fn(|cx| {
                    if let Some(k) = limit {
                        if polls >= k {
                            return Poll::Ready(false);
                        }
                    }
                    polls += 1;
                    let r = fut.as_mut().poll(cx);
                    if r.is_pending() {
                        if let Some(k) = limit {
                            if polls >= k {
                                cx.waker().wake_by_ref();
                            }
                        }
                    }
                    r.map(|_| true)
                })
                .await;
                if done {
                    sim2.log(EvKind::ExecDone { node, id, inc });
                } else {
                    sim2.count("fault.drop_handler_midway");
                    sim2.log(EvKind::UnrunDropped { node, id, inc });
                    drop(fut);
                }
            });
            shared.handler_tasks.borrow_mut().push(t);
        }
    }
}

pub fn mk_ctx(sim: &Sim, dl: &Dl, trace_seed: u64, span: u64, sampled: bool) -> Option<context::Context> {
    let now = sim.now_ms();
    let base = sim.instant_at(now);
    let deadline = match dl {
        Dl::Ms(ms) if *ms < 0 => sim.instant_at(now + *ms),
        Dl::Ms(ms) => base.checked_add(Duration::from_millis(*ms as u64))?,
        Dl::Secs(s) => base.checked_add(Duration::from_secs(*s))?,
        Dl::SecsNanos(s, n) => base.checked_add(Duration::new(*s, *n))?,
    };
    let mut ctx = context::current();
    ctx.deadline = deadline;
    ctx.trace_context = trace::Context {
        trace_id: trace::TraceId::from(crate::profiles::client::trace128(trace_seed)),
        span_id: trace::SpanId::from(span),
        sampling_decision: if sampled { trace::SamplingDecision::Sampled } else { trace::SamplingDecision::Unsampled },
    };
    Some(ctx)
}

pub const PEER_SPAN_BASE: u64 = 0x6000_0000;

type SrvPeer = PeerEnd<ClientMessage<u64>, Response<u64>>;

pub struct ServerState {
    pub peer: SrvPeer,
    pub server: usize,
    pub script_task: usize,
    pub chaos: Vec<usize>,
    pub shared: Rc<ServerShared>,
    pub eof_sent: bool,
    pub eof_at_end: bool,
}

pub fn run(scn: &ServerScn, tape: Tape, _logging: bool) -> RunOutput {
    let knobs = Knobs { preempt_permille: scn.preempt_permille, spurious_permille: scn.spurious_permille, ..Knobs::default() };
    let horizon = horizon_ms(scn);
    let scn2 = scn.clone();
    let _sub = crate::subscribers::install(scn.subscriber);
    run_sim(
        tape,
        knobs,
        horizon,
        true,
        |sim| {
            let scn = scn2;
            let (transport, peer): (SimTransport<ClientMessage<u64>, Response<u64>>, SrvPeer) =
                sim_link(0, "server", scn.link.clone());
            let link = transport.link();
            let cfg = server::Config { pending_response_buffer: scn.resp_buf };
            let base = BaseChannel::new(cfg, transport);
            let shared = ServerShared::new();
            shared.check_current.set(scn.subscriber == 2);
            let link_m = link.clone();
            let mon: Rc<dyn Fn(bool, bool)> = Rc::new(move |begin, pending| {
                if begin {
                    link_m.borrow_mut().mon.owner_poll_begin();
                } else {
                    link_m.borrow_mut().mon.owner_poll_end("server", pending);
                }
            });
            let hp = scn.handlers.clone();
            let plans: Rc<dyn Fn(u64) -> HandlerPlan> = Rc::new(move |tag| {
                hp.get(tag as usize).cloned().unwrap_or(HandlerPlan { steps: vec![], err: false, run: RunMode::Execute })
            });
            let server = match scn.limit {
                Some(l) if scn.pre_read > 0 => {
                    let (sim_s, mon_s, shared_s, pre) = (sim.clone(), mon.clone(), shared.clone(), scn.pre_read as usize);
                    sim.spawn("server", async move {
                        // the application takes requests from the bare channel by hand, keeps
                        // them, and only then puts the limiter on
                        let mut base = base;
                        let mut held = Vec::new();
                        while held.len() < pre {
                            let item = poll_fn(|cx| {
                                mon_s(true, false);
                                let r = Pin::new(&mut base).poll_next(cx);
                                mon_s(false, r.is_pending());
                                r
                            })
                            .await;
                            match item {
                                Some(Ok(tr)) => {
                                    let r = &tr.request;
                                    sim_s.log(EvKind::Yielded {
                                        node: 0,
                                        id: r.id,
                                        tag: r.message,
                                        deadline_ms: sim_s.ms_of_local(r.context.deadline),
                                        trace: u128::from(r.context.trace_context.trace_id),
                                        span: u64::from(r.context.trace_context.span_id),
                                        sampled: r.context.trace_context.sampling_decision == trace::SamplingDecision::Sampled,
                                    });
                                    sim_s.count("probe.request_taken_from_bare_channel");
                                    held.push(tr);
                                }
                                _ => break,
                            }
                        }
                        sim_s.log(EvKind::Note { what: "limiter_on", a: held.len() as i64, b: l as i64 });
                        server_task_limited(sim_s, 0, base.max_concurrent_requests(l), mon_s, plans, shared_s).await;
                        drop(held);
                    })
                }
                Some(l) if scn.chain.is_some() => {
                    let (looser, inside) = scn.chain.unwrap();
                    sim.count("probe.two_limits_on_one_channel");
                    let (first, second) = if inside { (looser.max(l), l) } else { (l, looser.max(l)) };
                    if scn.via_listener {
                        sim.count("probe.limit_from_listener_default");
                        sim.spawn("server", from_listener(base, first).max_concurrent_requests(second).run_limited(sim.clone(), 0, mon, plans, shared.clone()))
                    } else {
                        sim.spawn("server", base.max_concurrent_requests(first).max_concurrent_requests(second).run_limited(sim.clone(), 0, mon, plans, shared.clone()))
                    }
                }
                Some(l) if scn.via_listener => {
                    sim.count("probe.limit_from_listener_default");
                    sim.spawn("server", server_task_limited(sim.clone(), 0, from_listener(base, l), mon, plans, shared.clone()))
                }
                Some(l) => sim.spawn("server", server_task_limited(sim.clone(), 0, base.max_concurrent_requests(l), mon, plans, shared.clone())),
                None => sim.spawn("server", server_task(sim.clone(), 0, base, mon, plans, shared.clone())),
            };
            // scripted client peer
            let (sim_p, peer_p, script) = (sim.clone(), peer.clone(), scn.script.clone());
            let script_task = sim.spawn("peer_script", async move {
                let mut next_id = 1u64;
                let mut ids: Vec<Option<u64>> = Vec::new();
                for (i, a) in script.iter().enumerate() {
                    if a.delay_ms > 0 {
                        tokio::time::sleep(Duration::from_millis(a.delay_ms)).await;
                    }
                    match &a.kind {
                        PeerKind::Req { id, deadline, sampled, untraced } => {
                            let rid = match id {
                                IdRef::Fresh => {
                                    next_id += 1;
                                    next_id
                                }
                                IdRef::DupOf(j) => ids.get(*j).copied().flatten().unwrap_or(9_999),
                                IdRef::ReuseOf(j) => {
                                    let rid = ids.get(*j).copied().flatten().unwrap_or(9_998);
                                    // wait until a response for it was seen on the wire (bounded)
                                    let mut waited = 0;
                                    while !response_seen(&sim_p, rid) && waited < 40 {
                                        tokio::time::sleep(Duration::from_millis(1)).await;
                                        waited += 1;
                                    }
                                    if !response_seen(&sim_p, rid) {
                                        ids.push(None);
                                        sim_p.log(EvKind::Note { what: "reuse_skipped", a: i as i64, b: 0 });
                                        continue;
                                    }
                                    sim_p.count("probe.id_reused_after_response");
                                    rid
                                }
                                IdRef::Raw(x) => *x,
                            };
                            ids.push(Some(rid));
                            let Some(mut ctx) = mk_ctx(&sim_p, deadline, 0x5000 + i as u64, PEER_SPAN_BASE + i as u64, *sampled) else {
                                sim_p.log(EvKind::Note { what: "req_skipped", a: i as i64, b: 0 });
                                continue;
                            };
                            if *untraced {
                                if *sampled {
                                    // an all-zero trace id that nevertheless carries a span id and a
                                    // positive sampling decision (a caller that built its context by hand)
                                    ctx.trace_context.trace_id = trace::TraceId::from(0u128);
                                } else {
                                    ctx.trace_context = trace::Context::default();
                                }
                                sim_p.count("probe.untraced_request");
                            }
                            peer_p.push(ClientMessage::Request(Request { context: ctx, id: rid, message: i as u64 }));
                        }
                        PeerKind::HalfClose => {
                            sim_p.count("fault.peer_eof_midrun");
                            peer_p.close_read();
                            return;
                        }
                        PeerKind::Cancel { of } => {
                            ids.push(None);
                            let rid = match of {
                                CancelOf::Entry(j) => ids.get(*j).copied().flatten().unwrap_or(9_997),
                                CancelOf::Unknown(x) => *x,
                            };
                            peer_p.push(ClientMessage::Cancel { trace_context: trace::Context::default(), request_id: rid });
                        }
                    }
                }
            });
            // drain responses off the wire
            let peer_r = peer.clone();
            sim.spawn_bg("peer_reader", async move { while peer_r.take().await.is_some() {} });
            let mut chaos = Vec::new();
            for (at, dur) in scn.stalls.clone() {
                let (sim_c, peer_c) = (sim.clone(), peer.clone());
                chaos.push(sim.spawn("stall", async move {
                    tokio::time::sleep(Duration::from_millis(at)).await;
                    sim_c.log(EvKind::Fault { kind: "stall_begin", arg: 0 });
                    sim_c.count("fault.stall");
                    peer_c.set_blocked(true);
                    tokio::time::sleep(Duration::from_millis(dur)).await;
                    sim_c.log(EvKind::Fault { kind: "stall_end", arg: 0 });
                    peer_c.set_blocked(false);
                }));
            }
            for (at, delta) in scn.jumps.clone() {
                let sim_c = sim.clone();
                chaos.push(sim.spawn("clock_jump", async move {
                    tokio::time::sleep(Duration::from_millis(at)).await;
                    // a jump models a stalled process / stepped clock *between* polls; time that
                    // passes in the middle of another task's poll is not something any oracle
                    // here accounts for
                    while sim_c.depth() > 1 {
                        crate::profiles::server::yield_once().await;
                    }
                    sim_c.log(EvKind::Fault { kind: "clock_jump", arg: delta as i64 });
                    sim_c.count("fault.clock_jump");
                    tokio::time::advance(Duration::from_millis(delta)).await;
                }));
            }
            if let Some(at) = scn.drop_stream_at {
                let sim_c = sim.clone();
                chaos.push(sim.spawn("drop_stream", async move {
                    tokio::time::sleep(Duration::from_millis(at)).await;
                    sim_c.log(EvKind::Fault { kind: "drop_stream", arg: 0 });
                    sim_c.count("fault.drop_stream");
                    sim_c.kill(server);
                }));
            }
            ServerState { peer, server, script_task, chaos, shared, eof_sent: false, eof_at_end: scn.eof_at_end }
        },
        |sim, st| {
            let handlers_done = st.shared.handler_tasks.borrow().iter().all(|t| sim.is_done(*t));
            let chaos_done = st.chaos.iter().all(|c| sim.is_done(*c));
            if sim.is_done(st.script_task) && chaos_done {
                if sim.is_done(st.server) && handlers_done {
                    return IdleAct::Stop;
                }
                if handlers_done && !st.eof_sent && st.eof_at_end {
                    st.eof_sent = true;
                    sim.count("fault.peer_eof");
                    st.peer.close_read();
                    return IdleAct::Again;
                }
            }
            IdleAct::Wait
        },
        |sim, st, end| {
            let link = st.peer.st.clone();
            let mut v = std::mem::take(&mut link.borrow_mut().mon.violations);
            let log = sim.log.borrow();
            v.extend(check(scn, &log, sim, 0));
            if !sim.panics.borrow().is_empty() {
                v.retain(|x| x.rule == "panic" || x.rule == "spin");
            }
            crate::finish_output(sim, v, end, "server")
        },
    )
}

fn response_seen(sim: &Sim, id: u64) -> bool {
    sim.log.borrow().iter().rev().any(|e| matches!(&e.kind, EvKind::TOp { op: Op::Send, res: Res::Ok, item: Some(Item::Resp { id: i, .. }), .. } if *i == id))
}

// ------------------------------------------------------------------------------------------
// Oracles

fn viol(prop: &'static str, rule: &str, tags: &[&str], detail: String) -> Violation {
    Violation { prop, rule: rule.to_string(), tags: tags.iter().map(|s| s.to_string()).collect(), detail }
}

#[derive(Debug, Clone, Default)]
pub struct Inc {
    pub id: u64,
    pub tag: u64,
    pub read_seq: u64,
    pub read_t: i64,
    pub deadline: i64,
    pub trace: u128,
    pub span: u64,
    pub sampled: bool,
    pub dup_ignored: bool,
    pub yielded: Option<u64>,
    pub handler_start: Option<u64>,
    pub finish: Option<u64>,
    pub hdrop: Option<(u64, i64, bool)>,
    pub unrun: Option<u64>,
    pub exec_done: Option<u64>,
    pub resp: Vec<(u64, i64, bool /*throttle*/, bool /*ok send*/)>,
    pub cancel_read: Option<u64>,
    pub polls: Vec<u64>,
    pub task: Option<u16>,
    /// The previous incarnation of this id had not been answered when this one was read.
    pub prev_unanswered_at_read: bool,
}

pub struct ServerModel {
    pub incs: Vec<Inc>,
    /// ids for which a new incarnation was read after an earlier one ended by cancel, expiry or
    /// guard drop rather than by its response: a still-buffered response of the old incarnation
    /// may then answer the new one. The property's quantifier excludes this pattern, so these
    /// ids are left out of the response-attribution rules.
    pub unclean: std::collections::HashSet<u64>,
    /// time at each seq
    pub times: Vec<i64>,
    pub idles: Vec<(u64, i64)>,
    /// idle points at which a throttled channel could not do housekeeping (at its limit with a
    /// sink that is not ready): see the known finding on MaxRequests
    pub blocked_idles: std::collections::HashSet<u64>,
}

impl ServerModel {
    fn t(&self, seq: u64) -> i64 {
        self.times.get(seq as usize).copied().unwrap_or(i64::MAX)
    }
    fn idle_between(&self, from_seq: u64, to_seq: u64, min_t: i64) -> bool {
        self.idles.iter().any(|(s, t)| *s > from_seq && *s < to_seq && *t >= min_t)
    }
    /// Removal observed on the wire (response written or cancel read) strictly before x.
    fn removed_obs(&self, i: &Inc, x: u64) -> bool {
        i.resp.iter().any(|r| r.0 < x) || i.cancel_read.map(|c| c < x).unwrap_or(false)
    }
    pub fn definitely(&self, i: &Inc, x: u64) -> bool {
        if i.dup_ignored || i.read_seq >= x || self.removed_obs(i, x) || self.unclean.contains(&i.id) {
            return false;
        }
        if i.deadline <= self.t(x) {
            return false;
        }
        let guard_gone = i.unrun.map(|g| g < x).unwrap_or(false)
            || i.hdrop.map(|(g, _, fin)| g < x && !fin).unwrap_or(false);
        !guard_gone
    }
    pub fn possibly(&self, i: &Inc, x: u64) -> bool {
        self.possibly_ext(i, x, false)
    }
    fn idle_between_ext(&self, from_seq: u64, to_seq: u64, min_t: i64, skip_blocked: bool) -> bool {
        self.idles
            .iter()
            .any(|(s, t)| *s > from_seq && *s < to_seq && *t >= min_t && !(skip_blocked && self.blocked_idles.contains(s)))
    }
    /// `skip_blocked`: do not count idle points at which housekeeping was deferred.
    pub fn possibly_ext(&self, i: &Inc, x: u64, skip_blocked: bool) -> bool {
        if skip_blocked {
            if i.dup_ignored || i.read_seq >= x || self.removed_obs(i, x) {
                return false;
            }
            if self.idle_between_ext(i.read_seq, x, i.deadline.saturating_add(2), true) {
                return false;
            }
            let g = i.unrun.or(i.hdrop.and_then(|(g, _, fin)| if fin { None } else { Some(g) }));
            if let Some(g) = g {
                if g < x && self.idle_between_ext(g, x, i64::MIN, true) {
                    return false;
                }
            }
            return true;
        }
        if i.dup_ignored || i.read_seq >= x || self.removed_obs(i, x) {
            return false;
        }
        // expiry is processed when the channel is polled after the timer fired: certain only
        // once an idle point at a time >= D+2 has passed
        if self.idle_between(i.read_seq, x, i.deadline.saturating_add(2)) {
            return false;
        }
        // guard-drop notifications are processed by the next channel poll: certain at the next
        // idle point
        let g = i.unrun.or(i.hdrop.and_then(|(g, _, fin)| if fin { None } else { Some(g) }));
        if let Some(g) = g {
            if g < x && self.idle_between(g, x, i64::MIN) {
                return false;
            }
        }
        true
    }
}

pub fn build_model(log: &[Ev], node: u8, link: u8) -> ServerModel {
    let mut m = ServerModel { incs: Vec::new(), unclean: Default::default(), times: Vec::with_capacity(log.len()), idles: Vec::new(), blocked_idles: Default::default() };
    // current incarnation per id
    let mut cur: HashMap<u64, usize> = HashMap::new();
    let mut by_tag: HashMap<u64, usize> = HashMap::new();
    let mut task_begin: HashMap<u16, u64> = HashMap::new();
    // cancels read (kind 0) and responses written (1 handler response, 2 throttle response), in
    // history order; attributed to incarnations after the pass
    let mut raw: Vec<(u64, i64, u64, u8, bool)> = Vec::new();
    for e in log {
        m.times.push(e.t);
        match &e.kind {
            EvKind::Note { what: "teardown", .. } => break,
            EvKind::Idle => m.idles.push((e.seq, e.t)),
            EvKind::PollBegin => {
                task_begin.insert(e.task, e.seq);
            }
            EvKind::TOp { link: l, op: Op::Next, res: Res::Ok, item: Some(it) } if *l == link => match it {
                Item::Req { id, tag, deadline_ms, trace, span, sampled } => {
                    let idx = m.incs.len();
                    // is the id currently tracked for sure / maybe?
                    m.incs.push(Inc {
                        id: *id,
                        tag: *tag,
                        read_seq: e.seq,
                        read_t: e.t,
                        deadline: *deadline_ms,
                        trace: *trace,
                        span: *span,
                        sampled: *sampled,
                        ..Default::default()
                    });
                    by_tag.insert(*tag, idx);
                    // provisional: becomes current incarnation of the id if it is yielded or
                    // throttled; a duplicate-while-in-flight that is ignored never does
                }
                Item::Cancel { id, .. } => {
                    raw.push((e.seq, e.t, *id, 0, false));
                }
                _ => {}
            },
            EvKind::Yielded { node: n, tag, id, .. } if *n == node => {
                if let Some(ix) = by_tag.get(tag) {
                    m.incs[*ix].yielded = Some(e.seq);
                    cur.insert(*id, *ix);
                }
            }
            EvKind::HandlerStart { node: n, inc, .. } if *n == node => {
                if let Some(ix) = by_tag.get(&(*inc as u64)) {
                    m.incs[*ix].handler_start = Some(e.seq);
                    m.incs[*ix].task = Some(e.task);
                }
            }
            EvKind::HandlerPoll { node: n, inc, .. } if *n == node => {
                if let Some(ix) = by_tag.get(&(*inc as u64)) {
                    let begin = task_begin.get(&e.task).copied().unwrap_or(e.seq);
                    m.incs[*ix].polls.push(begin);
                }
            }
            EvKind::HandlerFinish { node: n, inc, .. } if *n == node => {
                if let Some(ix) = by_tag.get(&(*inc as u64)) {
                    m.incs[*ix].finish = Some(e.seq);
                }
            }
            EvKind::HandlerDrop { node: n, inc, finished, .. } if *n == node => {
                if let Some(ix) = by_tag.get(&(*inc as u64)) {
                    m.incs[*ix].hdrop = Some((e.seq, e.t, *finished));
                }
            }
            EvKind::UnrunDropped { node: n, inc, .. } if *n == node => {
                if let Some(ix) = by_tag.get(&(*inc as u64)) {
                    m.incs[*ix].unrun = Some(e.seq);
                }
            }
            EvKind::ExecDone { node: n, inc, .. } if *n == node => {
                if let Some(ix) = by_tag.get(&(*inc as u64)) {
                    m.incs[*ix].exec_done = Some(e.seq);
                }
            }
            EvKind::TOp { link: l, op: Op::Send, res, item: Some(Item::Resp { id, err, .. }) } if *l == link => {
                let throttle = err.as_ref().map(|x| x.1 == THROTTLE_DETAIL).unwrap_or(false);
                raw.push((e.seq, e.t, *id, if throttle { 2 } else { 1 }, *res == Res::Ok));
            }
            _ => {}
        }
    }
    // Attribution. The channel tracks requests by id only, and a request is tracked from the
    // moment it is read: a cancel or a handler response with id X concerns the latest request
    // with id X that was read before it and went on to be yielded; a throttle response concerns
    // the latest read request with id X that was not yielded and has no response yet.
    for (seq, t, id, kind, ok) in raw {
        match kind {
            0 => {
                if let Some(ix) = m.incs.iter().rposition(|i| i.id == id && i.tag != u64::MAX && i.yielded.is_some() && i.read_seq < seq) {
                    let inc = &mut m.incs[ix];
                    if inc.resp.is_empty() && inc.cancel_read.is_none() {
                        inc.cancel_read = Some(seq);
                    }
                }
            }
            1 => match m.incs.iter().rposition(|i| i.id == id && i.tag != u64::MAX && i.yielded.is_some() && i.read_seq < seq) {
                Some(ix) => m.incs[ix].resp.push((seq, t, false, ok)),
                None => m.incs.push(Inc { id, tag: u64::MAX, read_seq: u64::MAX, resp: vec![(seq, t, false, ok)], dup_ignored: true, ..Default::default() }),
            },
            _ => match m.incs.iter().rposition(|i| i.id == id && i.tag != u64::MAX && i.yielded.is_none() && i.resp.is_empty() && i.read_seq < seq) {
                Some(ix) => m.incs[ix].resp.push((seq, t, true, ok)),
                None => m.incs.push(Inc { id, tag: u64::MAX, read_seq: u64::MAX, resp: vec![(seq, t, true, ok)], dup_ignored: true, ..Default::default() }),
            },
        }
    }
    // Unclean reuse, decided over the whole history: an incarnation that was followed by another
    // yielded incarnation of the same id although it never got its response on the wire, and
    // whose handler finished (buffered response) or was dropped by the application (queued guard
    // cancellation) at any time.
    let mut by_id: HashMap<u64, Vec<usize>> = HashMap::new();
    for (ix, i) in m.incs.iter().enumerate() {
        if i.tag != u64::MAX && i.yielded.is_some() {
            by_id.entry(i.id).or_default().push(ix);
        }
    }
    for (id, ixs) in by_id {
        for w in ixs.windows(2) {
            let p = &m.incs[w[0]];
            // a response is (possibly) sitting in the buffer only if the execute future ran to
            // its end before the request was removed by a Cancel: a handler that finished but
            // was still parked on a full response buffer when the Cancel was read is aborted
            // there and leaves nothing behind. Removal by expiry is not observable, so a
            // finished handler whose request was not cancelled counts as possibly buffered.
            // (A handler that finishes in a poll overlapping the Cancel — possible on a parallel
            // runtime, generated here by in-poll preemption — also gets its response buffered.)
            let buffered = match (p.finish, p.cancel_read) {
                (None, _) => false,
                (Some(_), None) => true,
                (Some(f), Some(c)) => f > c || p.exec_done.map(|d| d < c).unwrap_or(false),
            };
            // a request the application dropped unrun leaves a guard cancellation (id only) in
            // the channel's queue until the channel is polled again: gone once a quiescent point
            // lies between the drop and the next incarnation's arrival
            let next_read = m.incs[w[1]].read_seq;
            let guard_residue = p.unrun.map(|u| !m.idle_between(u, next_read, i64::MIN)).unwrap_or(false);
            if p.resp.is_empty() && (buffered || guard_residue) {
                m.unclean.insert(id);
            }
        }
    }
    m
}

pub fn check(scn: &ServerScn, log: &[Ev], sim: &Sim, node: u8) -> Vec<Violation> {
    let mut v = Vec::new();
    let mut m = build_model(log, node, 0);
    let limit = scn.limit;
    // global facts
    let mut stream_end: Option<u64> = None;
    let mut stream_err: Option<(u64, String)> = None;
    let mut stream_dropped: Option<u64> = None;
    let mut killed: Option<u64> = None;
    let mut first_fail: Option<(u64, Op)> = None;
    let mut read_eof: Option<u64> = None;
    let mut stall_depth = 0i32;
    let mut stall_at: Vec<(u64, i32)> = Vec::new();
    let mut samples: Vec<(u64, u64, u64)> = Vec::new(); // seq, in_flight, timers
    let mut last = (0u64, 0u64);
    let mut ready_results: Vec<(u64, bool)> = Vec::new();
    let extreme = scn.script.iter().any(|a| matches!(&a.kind, PeerKind::Req { deadline, .. } if !matches!(deadline, Dl::Ms(ms) if *ms <= 3_600_000)));
    for e in log {
        match &e.kind {
            EvKind::Note { what: "teardown", .. } => break,
            EvKind::StreamEnd { node: n } if *n == node => stream_end = Some(e.seq),
            EvKind::StreamErr { node: n, activity } if *n == node => stream_err = Some((e.seq, activity.clone())),
            EvKind::Note { what: "stream_dropped", .. } => stream_dropped = Some(e.seq),
            EvKind::Fault { kind: "drop_stream", .. } => {
                killed = Some(e.seq);
                stream_dropped.get_or_insert(e.seq);
            }
            EvKind::Fault { kind: "stall_begin", .. } => {
                stall_depth += 1;
                stall_at.push((e.seq, stall_depth));
            }
            EvKind::Fault { kind: "stall_end", .. } => {
                stall_depth -= 1;
                stall_at.push((e.seq, stall_depth));
            }
            EvKind::Sample { node: n, what: "s_in_flight", value } if *n == node => last.0 = *value,
            EvKind::Sample { node: n, what: "s_timers", value } if *n == node => {
                last.1 = *value;
                samples.push((e.seq, last.0, last.1));
            }
            EvKind::TOp { link: 0, op, res, .. } => {
                if *res == Res::Err && first_fail.is_none() {
                    first_fail = Some((e.seq, *op));
                }
                if *op == Op::Next && *res == Res::Eof {
                    read_eof.get_or_insert(e.seq);
                }
                if *op == Op::Ready {
                    ready_results.push((e.seq, *res == Res::Pending));
                }
            }
            _ => {}
        }
    }
    let stalled_only = |seq: u64| stall_at.iter().rev().find(|(s, _)| *s < seq).map(|(_, d)| *d > 0).unwrap_or(false);
    // sink not ready: a stall is in force, or the latest readiness probe before `seq` was Pending
    let stalled_at = |seq: u64| {
        stalled_only(seq)
            || ready_results.iter().rev().find(|(s, _)| *s < seq).map(|(_, pending)| *pending).unwrap_or(false)
    };
    let over = stream_dropped.or(stream_end).or(stream_err.as_ref().map(|x| x.0));

    // classify duplicates-while-in-flight that were ignored: a read request that was neither
    // yielded nor throttled
    for ix in 0..m.incs.len() {
        if m.incs[ix].tag != u64::MAX && m.incs[ix].yielded.is_none() && m.incs[ix].resp.iter().all(|r| !r.2) {
            m.incs[ix].dup_ignored = true;
        }
    }

    if limit.is_some() {
        let blocked: Vec<u64> = m.idles.iter().filter(|(s, _)| stalled_at(*s)).map(|x| x.0).collect();
        m.blocked_idles.extend(blocked);
    }

    // ---- rare-condition probes (coverage only)
    {
        if m.incs.iter().any(|i| i.resp.iter().any(|r| r.2)) {
            sim.count("probe.request_throttled");
        }
        if m.incs.iter().any(|i| i.tag != u64::MAX && i.dup_ignored) {
            sim.count("probe.duplicate_while_in_flight_ignored");
        }
        if m.incs.iter().any(|i| i.tag != u64::MAX && i.deadline <= i.read_t) {
            sim.count("probe.expired_on_arrival");
        }
        if m.incs.iter().any(|i| matches!((i.finish, i.cancel_read), (Some(f), Some(c)) if f < c)) {
            sim.count("probe.cancel_after_handler_finished");
        }
        if m.incs.iter().any(|i| matches!((i.handler_start, i.cancel_read), (None, Some(_)))) {
            sim.count("probe.cancel_before_handler_started");
        }
        if !m.unclean.is_empty() {
            sim.count("probe.unclean_id_reuse");
        }
        if limit.is_some() && m.idles.iter().any(|(s, _)| stalled_at(*s) && samples.iter().rev().find(|x| x.0 < *s).map(|x| x.1 as usize >= limit.unwrap()).unwrap_or(false)) {
            sim.count("probe.idle_at_limit_with_unready_sink");
        }
    }

    // ---- C08: one handler per id at a time. Whatever became of an earlier request with the same
    // id (answered, cancelled, expired, dropped), its handler is gone by the time the channel is
    // quiescent again after a later request with that id was handed out; a request reusing an id
    // that is still in flight is ignored, so two live handlers for one id never coexist at a
    // quiescent point.
    'conc: for (iseq, _) in &m.idles {
        if over.map(|o| o < *iseq).unwrap_or(false) || first_fail.map(|f| f.0 < *iseq).unwrap_or(false) {
            continue;
        }
        let mut live: HashMap<u64, u64> = HashMap::new();
        for i in m.incs.iter() {
            if i.tag == u64::MAX || m.unclean.contains(&i.id) {
                continue;
            }
            let started = i.handler_start.map(|s| s < *iseq).unwrap_or(false);
            let gone = i.hdrop.map(|h| h.0 < *iseq).unwrap_or(false);
            if started && !gone {
                if let Some(other) = live.insert(i.id, i.tag) {
                    v.push(viol("C08", "handler-count", &["concurrent"], format!("two handlers for id {} (tags {other} and {}) are alive at idle seq {iseq}: a request reusing an id is either ignored (the id is still in flight) or handed out after the earlier handler is gone", i.id, i.tag)));
                    break 'conc;
                }
            }
        }
    }

    // ---- C08: handler count per read request
    for ix in 0..m.incs.len() {
        let i = &m.incs[ix];
        if i.tag == u64::MAX {
            v.push(viol("C08", "orphan-response", &[], format!("response for id {} answers no request read on this channel", i.id)));
            continue;
        }
        if m.unclean.contains(&i.id) {
            continue;
        }
        let r = i.read_seq;
        let others: Vec<&Inc> = m.incs.iter().enumerate().filter(|(j, o)| *j != ix && o.id == i.id && o.tag != u64::MAX).map(|(_, o)| o).collect();
        let def_tracked = others.iter().any(|o| m.definitely(o, r));
        let poss_tracked = others.iter().any(|o| m.possibly(o, r));
        let throttled = i.resp.iter().any(|x| x.2);
        let alive_after_read = over.map(|o| o > r).unwrap_or(true) && first_fail.map(|f| f.0 > r).unwrap_or(true);
        if i.yielded.is_some() && def_tracked {
            v.push(viol("C08", "handler-count", &["dup-yielded"], format!("request tag {} reuses id {} while it is in flight, yet was offered to the application", i.tag, i.id)));
        }
        if i.yielded.is_none() && !throttled && !poss_tracked && alive_after_read {
            // must have been yielded in the same poll it was read (or throttled when a limit is set)
            let next_idle = m.idles.iter().find(|(s, _)| *s > r).map(|x| x.0);
            // the channel may fail (or be dropped) in the very poll that read the request
            let failed_first = next_idle
                .map(|ni| first_fail.map(|f| f.0 < ni).unwrap_or(false) || over.map(|o| o < ni).unwrap_or(false))
                .unwrap_or(true);
            if next_idle.is_some() && !failed_first {
                v.push(viol("C08", "handler-count", &["not-yielded"], format!("request tag {} (id {}) was read at seq {} but never offered to the application", i.tag, i.id, r)));
                if limit.is_some() {
                    // with a limit a read request is either handed over or refused with exactly
                    // one throttle response: this one got neither
                    v.push(viol("C12", "throttle-count", &["none"], format!("request tag {} (id {}) was read at seq {} and neither handed to the application nor answered with a throttle response", i.tag, i.id, r)));
                }
            }
        }
        let handler_resps = i.resp.iter().filter(|x| !x.2).count();
        if handler_resps + i.resp.iter().filter(|x| x.2).count() > 1 {
            if throttled {
                v.push(viol("C12", "throttle-count", &[], format!("request tag {} (id {}) got {} responses", i.tag, i.id, i.resp.len())));
            } else {
                v.push(viol("C08", "double-response", &[], format!("request tag {} (id {}) got {} responses", i.tag, i.id, i.resp.len())));
            }
        }
        for rsp in i.resp.iter().filter(|x| !x.2) {
            if !i.finish.map(|f| f < rsp.0).unwrap_or(false) {
                v.push(viol("C08", "response-without-completion", &[], format!("response for tag {} (id {}) at seq {} but its handler had not finished", i.tag, i.id, rsp.0)));
            }
            if let Some(c) = i.cancel_read {
                if rsp.0 > c {
                    v.push(viol("C04", "response-after-cancel", &[], format!("tag {} (id {}): cancel read at seq {c}, response transmitted at seq {}", i.tag, i.id, rsp.0)));
                }
            }
            // a request that arrives already expired is given a zero-length timer when it is
            // read: "afterwards" is counted from whichever is later
            if rsp.1 >= i.deadline.max(i.read_t).saturating_add(2) && (!extreme || scn.long) {
                let mut tags = vec![];
                if limit.is_some() {
                    tags.push("limit");
                    // was the sink unready at any idle point between the deadline and the write?
                    if ready_results.iter().any(|(s, pending)| *pending && *s > i.read_seq && *s < rsp.0)
                        || m.idles.iter().any(|(s, t)| *t >= i.deadline && *s < rsp.0 && stalled_at(*s))
                    {
                        tags.push("sink_unready");
                    }
                }
                v.push(viol("C06", "response-after-expiry", &tags, format!("tag {} (id {}): deadline {}, response transmitted at t={}", i.tag, i.id, i.deadline, rsp.1)));
                // C08's clause: a response goes out only if the handler finished before the
                // request expired
                let finished_at = i.finish.and_then(|f| m.times.get(f as usize).copied());
                if finished_at.map(|ft| ft >= i.deadline.max(i.read_t).saturating_add(2)).unwrap_or(false) {
                    v.push(viol("C08", "response-after-expiry", &[], format!("tag {} (id {}): deadline {}, handler finished at t={}, its response was transmitted at t={}", i.tag, i.id, i.deadline, finished_at.unwrap(), rsp.1)));
                }
            }
            if let Some((g, _, false)) = i.hdrop {
                if g < rsp.0 {
                    v.push(viol("C08", "response-without-completion", &["dropped"], format!("tag {}: handler dropped at seq {g} yet a response was transmitted", i.tag)));
                }
            }
        }
        if throttled && (i.yielded.is_some() || i.handler_start.is_some()) {
            v.push(viol("C12", "throttled-executed", &[], format!("request tag {} was throttled and also handed to the application", i.tag)));
        }
        // ---- C04: no handler progress after its cancel was read
        if let Some(c) = i.cancel_read {
            if let Some(p) = i.polls.iter().find(|p| **p > c) {
                v.push(viol("C04", "progress-after-cancel", &[], format!("tag {} (id {}): cancel read at seq {c}, handler polled again in a poll that began at seq {p}", i.tag, i.id)));
            }
            if let Some(f) = i.finish {
                // finishing in a poll that began after the cancel
                let _ = f;
            }
        }
        // ---- C06 / C04: every abort needs a reason
        if let Some((g, gt, false)) = i.hdrop {
            let cancelled = i.cancel_read.map(|c| c < g).unwrap_or(false);
            let expired = gt >= i.deadline;
            let scripted = matches!(scn.handlers.get(i.tag as usize).map(|h| &h.run), Some(RunMode::DropAfterPolls(_)))
                || scn.handlers.get(i.tag as usize).map(|h| h.steps.contains(&HStep::Panic)).unwrap_or(false);
            let chan_gone = over.map(|o| o < g).unwrap_or(false);
            if !cancelled && !expired && !scripted && !chan_gone {
                let stray_cancel = log.iter().any(|e| matches!(&e.kind, EvKind::TOp { link: 0, op: Op::Next, res: Res::Ok, item: Some(Item::Cancel { id, .. }) } if *id != i.id && e.seq < g));
                if stray_cancel {
                    v.push(viol("C04", "stray-cancel-effect", &[], format!("tag {} (id {}): handler aborted at seq {g} (t={gt}, deadline {}) with no cancel for its id", i.tag, i.id, i.deadline)));
                } else {
                    v.push(viol("C06", "early", &[], format!("tag {} (id {}): handler aborted at t={gt} before its deadline {}", i.tag, i.id, i.deadline)));
                }
            }
        }
    }

    // ---- C06.late and C04.cascade-style quiescence: at idle points, tracked requests past their deadline
    for (iseq, it) in &m.idles {
        if over.map(|o| o < *iseq).unwrap_or(false) {
            continue;
        }
        for i in &m.incs {
            if i.tag == u64::MAX || i.dup_ignored || i.read_seq > *iseq || m.unclean.contains(&i.id) {
                continue;
            }
            let running = i.handler_start.map(|h| h < *iseq).unwrap_or(false)
                && !i.finish.map(|f| f < *iseq).unwrap_or(false)
                && !i.hdrop.map(|d| d.0 < *iseq).unwrap_or(false)
                && !i.unrun.map(|d| d < *iseq).unwrap_or(false);
            if running && *it >= i.deadline.max(i.read_t).saturating_add(2) && (!extreme || scn.long) {
                let mut tags = vec![];
                if limit.is_some() {
                    tags.push("limit");
                    let infl = samples.iter().rev().find(|s| s.0 < *iseq).map(|s| s.1).unwrap_or(0);
                    if infl as usize >= limit.unwrap() {
                        tags.push("at_limit");
                    }
                }
                if stalled_at(*iseq) {
                    tags.push("sink_unready");
                }
                v.push(viol("C06", "late", &tags, format!("tag {} (id {}): deadline {} passed (now {}), handler neither finished nor aborted at idle seq {}", i.tag, i.id, i.deadline, it, iseq)));
            }
            if running {
                if let Some(c) = i.cancel_read {
                    if c < *iseq {
                        v.push(viol("C04", "progress-after-cancel", &["not-aborted"], format!("tag {} (id {}): cancel read at seq {c} but the handler is still alive at idle seq {}", i.tag, i.id, iseq)));
                    }
                }
            }
        }
    }

    // ---- C04: a cancellation delivered to the transport has to be read. The channel reads until
    // the transport is exhausted in every poll and the transport wakes it on delivery, so at a
    // quiescent point (sink ready, channel alive, nothing failed) nothing may be left unread.
    {
        let pushes: Vec<(u64, bool, u64)> = log
            .iter()
            .filter_map(|e| match &e.kind {
                EvKind::PeerPush { link: l, item } if *l == 0 => Some((e.seq, matches!(item, Item::Cancel { .. }), match item { Item::Cancel { id, .. } | Item::Req { id, .. } => *id, _ => 0 })),
                _ => None,
            })
            .collect();
        let takes: Vec<u64> = log
            .iter()
            .filter_map(|e| match &e.kind {
                EvKind::TOp { link: l, op: Op::Next, res: Res::Ok, item: Some(_) } if *l == 0 => Some(e.seq),
                _ => None,
            })
            .collect();
        for (iseq, _) in &m.idles {
            if over.map(|o| o < *iseq).unwrap_or(false) || first_fail.map(|f| f.0 < *iseq).unwrap_or(false) || killed.map(|k| k < *iseq).unwrap_or(false) || stalled_at(*iseq) {
                continue;
            }
            let pushed = pushes.iter().filter(|p| p.0 < *iseq).count();
            let taken = takes.iter().filter(|t| **t < *iseq).count();
            if pushed > taken {
                if let Some((pseq, true, id)) = pushes.get(taken) {
                    let running = m.incs.iter().any(|i| i.id == *id && i.yielded.map(|y| y < *iseq).unwrap_or(false) && m.definitely(i, *iseq));
                    if running {
                        v.push(viol("C04", "cancel-unread", &[], format!("the cancel for id {id} was delivered to the transport at seq {pseq} and is still unread at idle seq {iseq} (sink ready, channel alive): its handler keeps running")));
                        break;
                    }
                }
            }
        }
    }

    // ---- C04: reads come before writes. In every pass the channel first reads the transport
    // until it yields a request or runs dry and only then writes a response, so a response is
    // never put on the wire ahead of a cancellation for it that was already there to be read when
    // the poll began. (Not so behind a request limit: a limiter that is at its limit does not read
    // while the sink cannot take a refusal, and a flush later in the same pass lets the write go
    // first. The cancellation has not been received then, and the property starts there.)
    if limit.is_none() {
        let mut push_seqs: Vec<u64> = Vec::new();
        let mut taken = 0usize;
        let mut poll_begin: HashMap<u16, u64> = HashMap::new();
        // per task: responses written in its current poll before it asked the transport for anything
        let mut early: HashMap<u16, (bool, Vec<(u64, u64)>)> = HashMap::new();
        'order: for e in log {
            match &e.kind {
                EvKind::PeerPush { link: 0, .. } => push_seqs.push(e.seq),
                EvKind::PollBegin => {
                    poll_begin.insert(e.task, e.seq);
                    early.insert(e.task, (false, Vec::new()));
                }
                EvKind::TOp { link: 0, op: Op::Send, res: Res::Ok, item: Some(Item::Resp { id, .. }) } => {
                    if let Some((asked, sent)) = early.get_mut(&e.task) {
                        if !*asked {
                            sent.push((*id, e.seq));
                        }
                    }
                }
                EvKind::TOp { link: 0, op: Op::Next, res, item } => {
                    let got = matches!(res, Res::Ok) && item.is_some();
                    let pushed_at = if got { push_seqs.get(taken).copied() } else { None };
                    if got {
                        taken += 1;
                    }
                    if let (Some(Item::Cancel { id, .. }), Some(pb), Some((_, sent))) = (item, poll_begin.get(&e.task), early.get(&e.task)) {
                        if let Some((_, sseq)) = sent.iter().find(|(sid, _)| sid == id) {
                            if pushed_at.map(|p| p < *pb).unwrap_or(false) && !m.unclean.contains(id) {
                                v.push(viol("C04", "response-after-cancel", &["overtaken"], format!("the cancel for id {id} was on the transport (delivered at seq {}) when the poll began at seq {pb}; the channel wrote the response at seq {sseq} before reading anything and read the cancel at seq {}", pushed_at.unwrap(), e.seq)));
                                break 'order;
                            }
                        }
                    }
                    if let Some((asked, _)) = early.get_mut(&e.task) {
                        *asked = true;
                    }
                }
                _ => {}
            }
        }
    }

    // ---- C11 / C04.still-counted: reported count against the interval model
    // After a failure only the first sample (taken at the end of the failing poll) is still
    // compared, and only if what failed was the write of a response: the request it answered has
    // ended for the channel whether or not the transport took the response.
    let sample_after_send_failure = match first_fail {
        Some((f, Op::Send)) => samples.iter().find(|x| x.0 > f).map(|x| x.0),
        _ => None,
    };
    for (sseq, infl, timers) in &samples {
        if over.map(|o| o < *sseq).unwrap_or(false) || (first_fail.map(|f| f.0 < *sseq).unwrap_or(false) && sample_after_send_failure != Some(*sseq)) {
            continue;
        }
        let mut hi = m.incs.iter().filter(|i| i.tag != u64::MAX && m.possibly(i, *sseq)).count() as u64;
        if sample_after_send_failure == Some(*sseq) {
            // requests read in the failing poll are tracked although they were never offered
            hi += m.incs.iter().filter(|i| i.tag != u64::MAX && i.read_seq < *sseq && i.yielded.is_none() && i.resp.is_empty() && !m.possibly(i, *sseq)).count() as u64;
        }
        if *infl > hi {
            let cancelled_counted = m.incs.iter().any(|i| i.cancel_read.map(|c| c < *sseq).unwrap_or(false) && i.resp.is_empty());
            let _ = cancelled_counted;
            let mut tags = vec!["server", "over"];
            if limit.is_some() {
                tags.push("limit");
            }
            // an expired-but-still-counted request whose expiry fell into a period in which the
            // sink was not ready (the throttler then does not poll the inner channel)
            let expired_during_unready = m.incs.iter().any(|c| {
                c.tag != u64::MAX
                    && c.read_seq < *sseq
                    && !m.removed_obs(c, *sseq)
                    && ((c.deadline <= m.t(*sseq)
                        && m.idles.iter().any(|(s, t)| *s < *sseq && *s > c.read_seq && *t >= c.deadline && stalled_at(*s)))
                        || {
                            let g = c.unrun.or(c.hdrop.and_then(|(g, _, fin)| if fin { None } else { Some(g) }));
                            g.map(|g| m.idles.iter().any(|(s, _)| *s < *sseq && *s > g && stalled_at(*s))).unwrap_or(false)
                        })
            });
            if stalled_at(*sseq) || expired_during_unready {
                tags.push("sink_unready");
            }
            v.push(viol("C11", "server-count", &tags, format!("channel reports {infl} in flight at seq {sseq}, at most {hi} requests can still be tracked")));
        }
        let _ = timers;
    }
    for (iseq, _it) in &m.idles {
        if over.map(|o| o < *iseq).unwrap_or(false) {
            continue;
        }
        let Some((_, infl, timers)) = samples.iter().rev().find(|s| s.0 < *iseq) else { continue };
        let lo = m.incs.iter().filter(|i| i.tag != u64::MAX && m.definitely(i, *iseq)).count() as u64;
        let hi = m.incs.iter().filter(|i| i.tag != u64::MAX && m.possibly(i, *iseq)).count() as u64;
        if *infl < lo {
            v.push(viol("C11", "server-count", &["server", "under"], format!("channel reports {infl} in flight at idle seq {iseq}, but {lo} yielded requests are unanswered/uncancelled/unexpired")));
        }
        if hi == 0 && first_fail.is_none() {
            let mut tags = vec!["server"];
            if limit.is_some() {
                tags.push("limit");
            }
            if stalled_at(*iseq) {
                tags.push("sink_unready");
            }
            if *infl != 0 {
                v.push(viol("C11", "leak-entry", &tags, format!("every request ended but the channel still tracks {infl} at idle seq {iseq}")));
            }
            if *timers != 0 {
                v.push(viol("C11", "leak-timer", &tags, format!("every request ended but {timers} deadline timer(s) remain armed at idle seq {iseq}")));
            }
        }
    }

    // ---- C12: throttling against the interval model
    let limiter_on = log.iter().find(|e| matches!(e.kind, EvKind::Note { what: "limiter_on", .. })).map(|e| e.seq);
    if let Some(l) = limit {
        for (ix, i) in m.incs.iter().enumerate() {
            if i.tag == u64::MAX || m.unclean.contains(&i.id) {
                continue;
            }
            if let Some(y) = i.yielded {
                // requests the application took from the bare channel before it put the limiter
                // on were not handed out by the limiter
                if limiter_on.map(|s| y < s).unwrap_or(false) {
                    continue;
                }
                let lo = m.incs.iter().enumerate().filter(|(j, o)| *j != ix && o.tag != u64::MAX && m.definitely(o, y)).count();
                if lo >= l {
                    v.push(viol("C12", "over-admit", &[], format!("request tag {} handed to the application at seq {y} while {lo} >= limit {l} requests were in flight", i.tag)));
                }
            }
            if i.resp.iter().any(|x| x.2) {
                let r = i.read_seq;
                let hi = m.incs.iter().enumerate().filter(|(j, o)| *j != ix && o.tag != u64::MAX && m.possibly(o, r)).count();
                if hi < l {
                    // was the count stale only because housekeeping had been deferred by a
                    // not-ready sink while at the limit (known finding)?
                    let hi_relaxed = m.incs.iter().enumerate().filter(|(j, o)| *j != ix && o.tag != u64::MAX && m.possibly_ext(o, r, true)).count();
                    let tags: &[&str] = if hi_relaxed >= l { &["limit", "sink_unready"] } else { &[] };
                    v.push(viol("C12", "over-throttle", tags, format!("request tag {} (read at seq {r}) refused although at most {hi} < limit {l} requests were in flight when it was read", i.tag)));
                }
            }
        }
    } else {
        for i in &m.incs {
            if i.resp.iter().any(|x| x.2) {
                v.push(viol("C12", "throttle-without-limit", &[], format!("request tag {} throttled on a channel without a limit", i.tag)));
            }
        }
    }

    // ---- C09 / C10 server side
    if let Some((fseq, op)) = first_fail {
        let want = match op {
            Op::Next => "Read",
            Op::Ready => "Ready",
            Op::Flush => "Flush",
            Op::Close => "Close",
            Op::Send => "Write",
        };
        if killed.map(|k| k > fseq).unwrap_or(true) {
            match &stream_err {
                Some((_, a)) if a == want => {}
                Some((_, a)) => v.push(viol("C09", "server-wrong-activity", &[], format!("transport {op:?} failed at seq {fseq}; the stream reported {a}, expected {want}"))),
                None => {
                    if stream_end.is_some() {
                        v.push(viol("C09", "server-error-swallowed", &[], format!("transport {op:?} failed at seq {fseq}; the stream ended cleanly instead of reporting it")));
                    } else if m.idles.iter().any(|(s, _)| *s > fseq) && killed.is_none() {
                        v.push(viol("C09", "server-error-swallowed", &["no-report"], format!("transport {op:?} failed at seq {fseq}; the stream never reported it")));
                    }
                }
            }
        }
    } else if let Some((s, a)) = &stream_err {
        v.push(viol("C09", "server-spurious-error", &[], format!("stream reported {a} at seq {s} without any transport failure")));
    }
    // after the stream is dropped every running handler is aborted
    if let Some(d) = stream_dropped {
        if let Some((iseq, _)) = m.idles.iter().find(|(s, _)| *s > d) {
            for i in m.incs.iter().filter(|i| !m.unclean.contains(&i.id)) {
                let running = i.handler_start.is_some()
                    && !i.finish.map(|f| f < *iseq).unwrap_or(false)
                    && !i.hdrop.map(|x| x.0 < *iseq).unwrap_or(false)
                    && !i.unrun.map(|x| x < *iseq).unwrap_or(false);
                if running {
                    v.push(viol("C09", "server-handlers-not-aborted", &[], format!("channel dropped at seq {d}; handler of tag {} still alive at idle seq {iseq}", i.tag)));
                }
            }
        }
    }
    // a throttle response written without readiness is rejected by a bounded sink: the refused
    // request then never gets its response
    {
        let mut rejected = false;
        for e in log {
            match &e.kind {
                EvKind::Fault { kind: "reject_unready_write", .. } => rejected = true,
                EvKind::TOp { link: 0, op: Op::Send, res: Res::Err, item: Some(Item::Resp { id, err: Some((_, d)), .. }) } if rejected => {
                    if d == THROTTLE_DETAIL {
                        v.push(viol("C12", "throttle-count", &["lost"], format!("throttle response for id {id} was written to a sink that had not been readied and was rejected: the refused request gets no response")));
                    }
                    rejected = false;
                }
                _ => {}
            }
        }
    }
    // a throttle response must reach the peer: written but still unflushed at a (writable) idle
    // point, it is not a response the refused request has received
    {
        let mut unflushed_throttle: Vec<(u64, u64)> = Vec::new(); // (seq, id)
        for e in log {
            match &e.kind {
                EvKind::Note { what: "teardown", .. } => break,
                EvKind::TOp { link: 0, op: Op::Send, res: Res::Ok, item: Some(Item::Resp { id, err: Some((_, d)), .. }) } if d == THROTTLE_DETAIL => {
                    unflushed_throttle.push((e.seq, *id));
                }
                EvKind::TOp { link: 0, op: Op::Flush, res: Res::Ok, .. } | EvKind::TOp { link: 0, op: Op::Close, res: Res::Ok, .. } => unflushed_throttle.clear(),
                EvKind::Idle => {
                    let ok_point = scn.link.coupled
                        && !stalled_at(e.seq)
                        && first_fail.map(|f| f.0 > e.seq).unwrap_or(true)
                        && over.map(|o| o > e.seq).unwrap_or(true);
                    if ok_point {
                        if let Some((s, id)) = unflushed_throttle.first() {
                            v.push(viol("C12", "throttle-count", &["unflushed"], format!("throttle response for id {id} written at seq {s} is still unflushed at idle seq {}: the refused request has not received it", e.seq)));
                            unflushed_throttle.clear();
                        }
                    }
                }
                _ => {}
            }
        }
    }
    // C10 server
    if let Some(e) = stream_end {
        if first_fail.is_none() {
            // responses written but not flushed when the stream ends are lost with the transport
            let mut unflushed = 0u32;
            for ev in log.iter().take_while(|x| x.seq < e) {
                match &ev.kind {
                    EvKind::TOp { link: 0, op: Op::Send, res: Res::Ok, .. } => unflushed += 1,
                    EvKind::TOp { link: 0, op: Op::Flush, res: Res::Ok, .. } | EvKind::TOp { link: 0, op: Op::Close, res: Res::Ok, .. } => unflushed = 0,
                    _ => {}
                }
            }
            if unflushed > 0 && scn.link.coupled {
                v.push(viol("C10", "server-early-end", &["unflushed"], format!("request stream ended at seq {e} with {unflushed} written response(s) not flushed")));
            }
            if read_eof.map(|r| r > e).unwrap_or(true) {
                v.push(viol("C10", "server-early-end", &["no-eof"], format!("request stream ended at seq {e} although the inbound side had not ended")));
            }
            for i in m.incs.iter().filter(|i| !m.unclean.contains(&i.id)) {
                if i.tag != u64::MAX && m.definitely(i, e) {
                    // still running or response pending
                    v.push(viol("C10", "server-early-end", &[], format!("request stream ended at seq {e} while request tag {} (id {}) was still in flight", i.tag, i.id)));
                }
                // finished handler whose response never reached the wire although still tracked
                if i.tag != u64::MAX && i.finish.map(|f| f < e).unwrap_or(false) && i.resp.is_empty() && i.cancel_read.is_none() && i.deadline > m.t(e) && i.unrun.is_none() && !i.dup_ignored {
                    v.push(viol("C10", "server-early-end", &["response-lost"], format!("request stream ended at seq {e}; handler of tag {} finished but its response was never transmitted", i.tag)));
                }
            }
        }
    }
    if let Some(r) = read_eof {
        // must end at the first idle point after the last tracked request is gone: an idle point
        // after the inbound side ended at which nothing can still be in flight, and which the
        // stream has not ended before, is a channel lingering with nothing left to do - whether
        // it never ends or ends late (say, only when a forgotten entry's deadline passes)
        if first_fail.is_none() && killed.is_none() && stream_err.is_none() {
            for (iseq, _) in m.idles.iter().filter(|(s, _)| *s > r && stream_end.map(|e| *s < e).unwrap_or(true)) {
                let hi = m.incs.iter().filter(|i| i.tag != u64::MAX && m.possibly(i, *iseq)).count();
                let pending_resp = m.incs.iter().any(|i| i.finish.is_some() && i.resp.is_empty() && !i.dup_ignored && i.cancel_read.is_none() && i.exec_done.map(|x| x > *iseq).unwrap_or(true) && i.hdrop.map(|h| h.2).unwrap_or(false));
                if hi == 0 && !pending_resp && !stalled_at(*iseq) {
                    v.push(viol("C10", "server-no-end", &[], format!("inbound side ended at seq {r}, nothing in flight at idle seq {iseq}, but the request stream has not ended")));
                    break;
                }
            }
        }
    }

    // ---- C07: a request that omits its deadline gets decode time + 10 s, wherever the server
    // that decodes it happens to be driven from
    for e in log {
        if let EvKind::Note { what: "inner_default_deadline", a, b } = &e.kind {
            if *a != 10_000 + *b && *a != 10_000 {
                v.push(viol("C07", "default", &["json", "inner-server"], format!("a request without a deadline, decoded by a server driven from inside a handler, got a deadline {a} ms away (expected 10000)")));
            }
        }
    }

    // ---- C18: the context a request is handed out with, whoever takes it (the request stream or
    // an application reading the bare channel by hand): the transmitted trace, a span of its own
    for e in log {
        if let EvKind::Yielded { node: n, tag, trace, span, sampled, .. } = &e.kind {
            if *n != node {
                continue;
            }
            if let Some(i) = m.incs.iter().find(|i| i.tag == *tag) {
                if (scn.subscriber != 2 || i.trace != 0) && (*trace != i.trace || *sampled != i.sampled) {
                    v.push(viol("C18", "handler-mismatch", &["yielded"], format!("tag {}: handed out with trace {trace:x}/{sampled}, request carried {:x}/{}", i.tag, i.trace, i.sampled)));
                }
                if (scn.subscriber != 2 || i.trace != 0) && (*span == i.span || *span == 0) {
                    v.push(viol("C18", "span-not-fresh", &["server", "yielded"], format!("tag {}: handed out with span {span:x}, the transmitted span", i.tag)));
                }
            }
        }
    }

    // ---- C18 / C07 (in-memory): handler context vs transmitted
    for e in log {
        if let EvKind::HandlerStart { node: n, inc, deadline_ms, trace, span, sampled, .. } = &e.kind {
            if *n != node {
                continue;
            }
            if let Some(i) = m.incs.iter().find(|i| i.tag == *inc as u64) {
                if scn.subscriber != 2 {
                    if *trace != i.trace || *sampled != i.sampled {
                        v.push(viol("C18", "handler-mismatch", &[], format!("tag {}: handler saw trace {trace:x}/{sampled}, request carried {:x}/{}", i.tag, i.trace, i.sampled)));
                    }
                    if *span == i.span || *span == 0 {
                        v.push(viol("C18", "span-not-fresh", &["server"], format!("tag {}: handler span {span:x} equals the transmitted span", i.tag)));
                    }
                }
                if scn.subscriber == 2 && i.trace != 0 {
                    // with the OpenTelemetry layer the handler's context comes from the RPC span,
                    // whose remote parent is the transmitted context: same trace, same sampling
                    // decision (parent-based sampler), a span id of its own
                    if *trace != i.trace || *sampled != i.sampled {
                        v.push(viol("C18", "handler-mismatch", &["otel"], format!("tag {}: handler saw trace {trace:x}/{sampled}, request carried {:x}/{}", i.tag, i.trace, i.sampled)));
                    }
                    if *span == i.span || *span == 0 {
                        v.push(viol("C18", "span-not-fresh", &["server", "otel"], format!("tag {}: handler span {span:x} equals the transmitted span", i.tag)));
                    }
                }
                if *deadline_ms != i.deadline {
                    v.push(viol("C07", if *deadline_ms < i.deadline { "earlier" } else { "stretched" }, &["in-memory"], format!("tag {}: request deadline {}, handler observed {}", i.tag, i.deadline, deadline_ms)));
                }
            }
        }
    }

    if scn.subscriber == 2 {
        for e in log {
            match &e.kind {
                EvKind::Note { what: "ctx_current", a, b } if *b != 0 => {
                    v.push(viol("C07", "span-scope", &[], format!("tag {a}: context::current() inside the handler is {b} ms off the handler's deadline")));
                }
                _ => {}
            }
        }
    }

    for (task, msg) in sim.panics.borrow().iter() {
        if msg.starts_with("SIM_SPIN") {
            continue;
        }
        let prop = if extreme || scn.subscriber != 0 {
            "C16"
        } else if !scn.link.faults.is_empty() {
            "C09"
        } else {
            "C08"
        };
        let mut tags = vec![crate::panic_class(msg), "server"];
        if tags[0] == "timer-range" {
            let t_panic = log.iter().rev().find(|e| e.task as usize == *task).map(|e| e.t).unwrap_or(0);
            let armed: Vec<(i64, i64, i64)> = m
                .incs
                .iter()
                // tracked: yielded or throttled; plus what was being read when the panic struck
                .filter(|i| i.yielded.is_some() || !i.resp.is_empty() || i.read_t == t_panic)
                .map(|i| {
                    let mut end = i64::MAX;
                    for r in &i.resp {
                        end = end.min(r.1);
                    }
                    if let Some(h) = i.hdrop {
                        end = end.min(h.1);
                    }
                    if let Some(c) = i.cancel_read {
                        end = end.min(m.t(c));
                    }
                    (i.read_t, i.deadline, end)
                })
                .collect();
            if crate::profiles::timer_queue_stale(&armed, t_panic) {
                tags.push("stale-timer-queue");
            }
        }
        v.push(viol(prop, "panic", &tags, format!("task {} panicked: {}", sim.names.borrow()[*task], msg)));
    }
    let _ = BTreeMap::<u8, u8>::new();
    v
}
