//! Batch driver: seeded search over scenarios and schedules, shrinking, replay files, evidence,
//! known-findings handling and the command line.

use crate::profiles::{self, Scenario};
use crate::tape::{mix, Rng, Tape};
use crate::{RunOutput, Violation};
use serde::{Deserialize, Serialize};
use serde_json::{json, Value};
use std::collections::{BTreeMap, HashSet};
use std::sync::atomic::{AtomicBool, AtomicU64, Ordering};
use std::sync::Mutex;
use std::time::Instant;

static WANT_LOG: AtomicBool = AtomicBool::new(false);
pub fn want_log() -> bool {
    WANT_LOG.load(Ordering::Relaxed)
}

pub const DEFAULT_SEED: u64 = 20261002;

pub struct Gen {
    pub name: &'static str,
    pub weight: u32,
    pub f: fn(&mut Rng) -> Scenario,
    /// Fault enumeration: given the fault-free scenario and its run, the scenarios to run next.
    pub expand: Option<fn(&Scenario, &RunOutput, &mut Rng, bool) -> Vec<Scenario>>,
}

pub struct CheckSpec {
    pub prop: &'static str,
    pub level: &'static str,
    pub gens: Vec<Gen>,
    pub quick_runs: u64,
    pub thorough_runs: u64,
    pub rule: &'static str,
    pub real: &'static [&'static str],
    pub stub: &'static [&'static str],
    pub assumptions: &'static [&'static str],
}

#[derive(Clone, Debug, Serialize, Deserialize)]
pub struct ReplayFile {
    pub property: String,
    pub rule: String,
    pub tags: Vec<String>,
    pub detail: String,
    pub seed: u64,
    pub run_index: u64,
    pub scenario: Scenario,
    pub tape: Vec<u32>,
    pub full_hash: u64,
}

#[derive(Clone, Debug, Deserialize)]
pub struct KnownFinding {
    pub property: String,
    pub rule: String,
    #[serde(default)]
    pub tags: Vec<String>,
    pub status: String,
    #[serde(default)]
    pub commit: Option<String>,
    pub what: String,
}

fn verif_dir() -> String {
    std::env::var("VERIF_DIR").unwrap_or_else(|_| "/verif".to_string())
}

fn load_known() -> Vec<KnownFinding> {
    let p = format!("{}/known_findings.json", verif_dir());
    match std::fs::read_to_string(&p) {
        Ok(s) => serde_json::from_str(&s).unwrap_or_else(|e| {
            eprintln!("harness error: cannot parse {p}: {e}");
            std::process::exit(2)
        }),
        Err(_) => vec![],
    }
}

fn matches_known(k: &KnownFinding, v: &Violation) -> bool {
    k.status == "known"
        && k.property == v.prop
        && k.rule == v.rule
        && k.tags.iter().all(|t| v.tags.contains(t))
}

#[derive(Default)]
struct Agg {
    evaluations: u64,
    polls: u64,
    events: u64,
    sim_ms: i128,
    counters: BTreeMap<&'static str, u64>,
    sigs: HashSet<u64>,
    sigs_nontrivial: HashSet<u64>,
    overruns: u64,
    other_props: BTreeMap<String, u64>,
    found: Vec<Found>,
    samples: Vec<Value>,
    per_gen: BTreeMap<&'static str, u64>,
}

struct Found {
    idx: u64,
    sub: u32,
    v: Violation,
    scn: Scenario,
    tape: Vec<u32>,
    full_hash: u64,
}

fn nontrivial(out: &RunOutput) -> bool {
    out.counters
        .iter()
        .any(|(k, v)| *v > 0 && (k.starts_with("fault.") || k.starts_with("probe.")))
}

pub fn run_batch(spec: &CheckSpec, seed: u64, runs: u64, thorough: bool, threads: usize) -> (AggOut, f64) {
    let t0 = Instant::now();
    let next = AtomicU64::new(0);
    let agg = Mutex::new(Agg::default());
    let total_w: u32 = spec.gens.iter().map(|g| g.weight).sum();
    let prop_h = spec.prop.bytes().fold(7u64, |a, b| mix(a, b as u64));
    std::thread::scope(|sc| {
        for _ in 0..threads {
            sc.spawn(|| {
                let mut local = Agg::default();
                loop {
                    let i = next.fetch_add(1, Ordering::Relaxed);
                    if i >= runs {
                        break;
                    }
                    let run_seed = mix(mix(seed, prop_h), i);
                    let mut rng = Rng::new(run_seed);
                    let mut w = rng.below(total_w as u64) as u32;
                    let mut gi = 0;
                    for (k, g) in spec.gens.iter().enumerate() {
                        if w < g.weight {
                            gi = k;
                            break;
                        }
                        w -= g.weight;
                    }
                    let g = &spec.gens[gi];
                    let scn = (g.f)(&mut rng);
                    let tape_seed = mix(run_seed, 0xA11CE);
                    let out = profiles::run_scenario(&scn, Tape::record(tape_seed));
                    *local.per_gen.entry(g.name).or_insert(0) += 1;
                    absorb(&mut local, spec, i, 0, &scn, &out);
                    if let Some(ex) = g.expand {
                        let more = ex(&scn, &out, &mut rng, thorough);
                        for (j, s2) in more.into_iter().enumerate() {
                            let out2 = profiles::run_scenario(&s2, Tape::record(tape_seed));
                            absorb(&mut local, spec, i, (j + 1) as u32, &s2, &out2);
                        }
                    }
                }
                let mut a = agg.lock().unwrap();
                merge(&mut a, local);
            });
        }
    });
    let a = agg.into_inner().unwrap();
    (AggOut(a), t0.elapsed().as_secs_f64())
}

pub struct AggOut(Agg);

fn absorb(a: &mut Agg, spec: &CheckSpec, idx: u64, sub: u32, scn: &Scenario, out: &RunOutput) {
    a.evaluations += 1;
    a.polls += out.polls;
    a.events += out.events as u64;
    a.sim_ms += out.sim_ms as i128;
    for (k, v) in &out.counters {
        *a.counters.entry(k).or_insert(0) += v;
    }
    a.sigs.insert(out.sig);
    if nontrivial(out) {
        a.sigs_nontrivial.insert(out.sig);
    }
    if out.overrun {
        a.overruns += 1;
    }
    for v in &out.violations {
        if v.prop == spec.prop {
            // keep the lowest-indexed few per rule
            let same: usize = a.found.iter().filter(|f| f.v.rule == v.rule && f.v.tags == v.tags).count();
            if same < 3 {
                a.found.push(Found {
                    idx,
                    sub,
                    v: v.clone(),
                    scn: scn.clone(),
                    tape: out.tape.draws.clone(),
                    full_hash: out.full_hash,
                });
            }
        } else {
            *a.other_props.entry(format!("{}.{}", v.prop, v.rule)).or_insert(0) += 1;
        }
    }
    if a.samples.len() < 2 && (idx < 2 || (nontrivial(out) && a.samples.len() < 2)) && sub == 0 {
        a.samples.push(json!({
            "run_index": idx,
            "scenario": scn,
            "tape_draws": out.tape.draws.len(),
            "polls": out.polls,
            "simulated_ms": out.sim_ms,
            "events": out.events,
        }));
    }
}

fn merge(a: &mut Agg, b: Agg) {
    a.evaluations += b.evaluations;
    a.polls += b.polls;
    a.events += b.events;
    a.sim_ms += b.sim_ms;
    for (k, v) in b.counters {
        *a.counters.entry(k).or_insert(0) += v;
    }
    a.sigs.extend(b.sigs);
    a.sigs_nontrivial.extend(b.sigs_nontrivial);
    a.overruns += b.overruns;
    for (k, v) in b.other_props {
        *a.other_props.entry(k).or_insert(0) += v;
    }
    a.found.extend(b.found);
    for (k, v) in b.per_gen {
        *a.per_gen.entry(k).or_insert(0) += v;
    }
    for s in b.samples {
        if a.samples.len() < 3 {
            a.samples.push(s);
        }
    }
}

// ---------------------------------------------------------------------------------------------
// Shrinking (generic over the scenario's JSON form) and replay.

fn violates(out: &RunOutput, prop: &str, rule: &str) -> Option<Violation> {
    out.violations
        .iter()
        .find(|v| v.prop == prop && v.rule == rule)
        .cloned()
}

struct Shrinker<'a> {
    prop: &'a str,
    rule: &'a str,
    budget: u32,
    seedbase: u64,
}

impl Shrinker<'_> {
    /// Does (scn, tape) or (scn, some fresh tape) still show the violation? Returns the tape that does.
    fn test(&mut self, scn: &Scenario, tape: &[u32]) -> Option<(Vec<u32>, Violation, u64)> {
        if self.budget == 0 || !scn.valid() {
            return None;
        }
        self.budget -= 1;
        let out = profiles::run_scenario(scn, Tape::replay(tape.to_vec()));
        if let Some(v) = violates(&out, self.prop, self.rule) {
            let used = out.tape.used();
            let mut t = tape.to_vec();
            t.truncate(used.max(1));
            return Some((t, v, out.full_hash));
        }
        for k in 0..4 {
            if self.budget == 0 {
                return None;
            }
            self.budget -= 1;
            self.seedbase = mix(self.seedbase, k);
            let out = profiles::run_scenario(scn, Tape::record(self.seedbase));
            if let Some(v) = violates(&out, self.prop, self.rule) {
                return Some((out.tape.draws.clone(), v, out.full_hash));
            }
        }
        None
    }
}

fn json_paths(v: &Value, path: &mut Vec<String>, out: &mut Vec<(Vec<String>, char)>) {
    match v {
        Value::Array(a) => {
            out.push((path.clone(), 'a'));
            for (i, x) in a.iter().enumerate() {
                path.push(i.to_string());
                json_paths(x, path, out);
                path.pop();
            }
        }
        Value::Object(o) => {
            for (k, x) in o {
                path.push(k.clone());
                json_paths(x, path, out);
                path.pop();
            }
        }
        Value::Number(_) => out.push((path.clone(), 'n')),
        Value::Bool(true) => out.push((path.clone(), 'b')),
        Value::Null | Value::Bool(false) | Value::String(_) => {}
    }
}

fn json_get_mut<'a>(v: &'a mut Value, path: &[String]) -> Option<&'a mut Value> {
    let mut cur = v;
    for p in path {
        cur = match cur {
            Value::Array(a) => a.get_mut(p.parse::<usize>().ok()?)?,
            Value::Object(o) => o.get_mut(p)?,
            _ => return None,
        };
    }
    Some(cur)
}

pub fn shrink(
    scn: &Scenario,
    tape: &[u32],
    prop: &str,
    rule: &str,
) -> (Scenario, Vec<u32>, Violation, u64) {
    let mut sh = Shrinker { prop, rule, budget: 1500, seedbase: 0x5EED };
    let mut best_scn = scn.clone();
    let (mut best_tape, mut best_v, mut best_hash) = match sh.test(scn, tape) {
        Some(x) => x,
        None => {
            // cannot even reproduce: report as is (caller will flag nondeterminism)
            return (scn.clone(), tape.to_vec(), Violation { prop: "??", rule: rule.to_string(), tags: vec![], detail: "not reproducible".into() }, 0);
        }
    };
    let mut progress = true;
    let mut rounds = 0;
    while progress && sh.budget > 0 && rounds < 6 {
        progress = false;
        rounds += 1;
        let val = serde_json::to_value(&best_scn).unwrap();
        let mut paths = Vec::new();
        json_paths(&val, &mut Vec::new(), &mut paths);
        // 1. delete array elements (largest arrays first: calls, plans, faults ...)
        for (p, kind) in paths.iter().filter(|x| x.1 == 'a') {
            let _ = kind;
            let mut cur = serde_json::to_value(&best_scn).unwrap();
            let len = match json_get_mut(&mut cur, p) {
                Some(Value::Array(a)) => a.len(),
                _ => continue,
            };
            let mut i = len;
            while i > 0 && sh.budget > 0 {
                i -= 1;
                let mut cand = serde_json::to_value(&best_scn).unwrap();
                if let Some(Value::Array(a)) = json_get_mut(&mut cand, p) {
                    if i >= a.len() {
                        continue;
                    }
                    a.remove(i);
                } else {
                    break;
                }
                if let Ok(s2) = serde_json::from_value::<Scenario>(cand) {
                    if let Some((t, v, h)) = sh.test(&s2, &best_tape) {
                        best_scn = s2;
                        best_tape = t;
                        best_v = v;
                        best_hash = h;
                        progress = true;
                    }
                }
            }
        }
        // 2. numbers toward zero, bools to false
        let val = serde_json::to_value(&best_scn).unwrap();
        let mut paths = Vec::new();
        json_paths(&val, &mut Vec::new(), &mut paths);
        for (p, kind) in paths.iter().filter(|x| x.1 != 'a') {
            if sh.budget == 0 {
                break;
            }
            let mut cands: Vec<Value> = Vec::new();
            let mut cur = serde_json::to_value(&best_scn).unwrap();
            match json_get_mut(&mut cur, p) {
                Some(Value::Number(n)) if *kind == 'n' => {
                    if let Some(x) = n.as_i64() {
                        if x != 0 {
                            cands.push(json!(0));
                            if x.abs() > 1 {
                                cands.push(json!(x / 2));
                            }
                            if x.abs() > 2 {
                                cands.push(json!(x - x.signum()));
                            }
                        }
                    }
                }
                Some(Value::Bool(true)) => cands.push(json!(false)),
                _ => {}
            }
            for c in cands {
                let mut cand = serde_json::to_value(&best_scn).unwrap();
                if let Some(slot) = json_get_mut(&mut cand, p) {
                    *slot = c;
                }
                if let Ok(s2) = serde_json::from_value::<Scenario>(cand) {
                    if let Some((t, v, h)) = sh.test(&s2, &best_tape) {
                        best_scn = s2;
                        best_tape = t;
                        best_v = v;
                        best_hash = h;
                        progress = true;
                        break;
                    }
                }
            }
        }
    }
    // 3. tape: zero chunks, then single draws
    let mut chunk = (best_tape.len() / 2).max(1);
    while chunk >= 1 && sh.budget > 0 {
        let mut i = 0;
        while i < best_tape.len() && sh.budget > 0 {
            let end = (i + chunk).min(best_tape.len());
            if best_tape[i..end].iter().any(|x| *x != 0) {
                let mut t = best_tape.clone();
                for x in &mut t[i..end] {
                    *x = 0;
                }
                sh.budget -= 1;
                let out = profiles::run_scenario(&best_scn, Tape::replay(t.clone()));
                if let Some(v) = violates(&out, prop, rule) {
                    t.truncate(out.tape.used().max(1));
                    best_tape = t;
                    best_v = v;
                    best_hash = out.full_hash;
                }
            }
            i = end;
        }
        if chunk == 1 {
            break;
        }
        chunk /= 2;
    }
    // final run to pin the hash
    let out = profiles::run_scenario(&best_scn, Tape::replay(best_tape.clone()));
    if let Some(v) = violates(&out, prop, rule) {
        best_v = v;
        best_hash = out.full_hash;
    }
    (best_scn, best_tape, best_v, best_hash)
}

fn replay_cmd(path: &str) -> i32 {
    let txt = match std::fs::read_to_string(path) {
        Ok(t) => t,
        Err(e) => {
            eprintln!("harness error: cannot read {path}: {e}");
            return 2;
        }
    };
    let rf: ReplayFile = match serde_json::from_str(&txt) {
        Ok(r) => r,
        Err(e) => {
            eprintln!("harness error: cannot parse {path}: {e}");
            return 2;
        }
    };
    WANT_LOG.store(true, Ordering::Relaxed);
    let out = profiles::run_scenario(&rf.scenario, Tape::replay(rf.tape.clone()));
    let quiet = std::env::var("VERIF_REPLAY_QUIET").is_ok();
    if !quiet {
        println!("--- scenario\n{}", serde_json::to_string_pretty(&rf.scenario).unwrap());
        println!("--- history ({} events)\n{}", out.events, out.log_text);
    }
    println!("history_hash={:016x} recorded={:016x}", out.full_hash, rf.full_hash);
    let hit = violates(&out, &rf.property, &rf.rule);
    for v in &out.violations {
        println!("violation {}.{} {:?}: {}", v.prop, v.rule, v.tags, v.detail);
    }
    match hit {
        Some(_) if out.full_hash == rf.full_hash => {
            println!("VIOLATION property={} replay={}", rf.property, path);
            1
        }
        Some(_) => {
            println!("reproduced {}.{} but with a different history hash", rf.property, rf.rule);
            3
        }
        None => {
            println!("replay did not reproduce {}.{}", rf.property, rf.rule);
            0
        }
    }
}

// ---------------------------------------------------------------------------------------------

fn fnv(s: &str) -> u64 {
    s.bytes().fold(0xcbf29ce484222325u64, |h, b| (h ^ b as u64).wrapping_mul(0x100000001b3))
}

pub fn check_cmd(prop: &str, tier: &str) -> i32 {
    let specs = profiles::checks();
    let Some(spec) = specs.iter().find(|s| s.prop == prop) else {
        eprintln!("harness error: no check registered for {prop}");
        return 2;
    };
    let seed: u64 = std::env::var("VERIF_SEED")
        .ok()
        .and_then(|s| s.parse::<i64>().ok().map(|x| x as u64).or_else(|| s.parse::<u64>().ok()))
        .unwrap_or(DEFAULT_SEED);
    let thorough = tier == "thorough";
    let threads: usize = std::env::var("VERIF_THREADS")
        .ok()
        .and_then(|s| s.parse().ok())
        .unwrap_or(16);
    let scale: f64 = std::env::var("VERIF_SCALE").ok().and_then(|s| s.parse().ok()).unwrap_or(1.0);
    let runs = ((if thorough { spec.thorough_runs } else { spec.quick_runs }) as f64 * scale) as u64;
    println!("check {prop} tier={tier} VERIF_SEED={seed} runs={runs} threads={threads}");
    let (AggOut(agg), wall) = run_batch(spec, seed, runs.max(1), thorough, threads);

    let known = load_known();
    let mut found = agg.found;
    found.sort_by_key(|f| (f.idx, f.sub));
    // one representative per (rule, tags)
    let mut reps: Vec<&Found> = Vec::new();
    for f in &found {
        if !reps.iter().any(|r| r.v.rule == f.v.rule && r.v.tags == f.v.tags) {
            reps.push(f);
        }
    }
    let mut exit = 0;
    let mut known_lines: Vec<String> = Vec::new();
    let mut violation_count = 0;
    let mut replay_paths = Vec::new();
    let _ = std::fs::create_dir_all(format!("{}/replays", verif_dir()));
    for f in &reps {
        if let Some(k) = known.iter().find(|k| matches_known(k, &f.v)) {
            let line = format!("KNOWN-FINDING: property={} {}.{} {:?}: {}", prop, prop, k.rule, k.tags, k.what);
            if !known_lines.contains(&line) {
                known_lines.push(line);
            }
            continue;
        }
        violation_count += 1;
        // shrink, write the replay file, verify it in a fresh process
        let (scn, tape, v, hash) = shrink(&f.scn, &f.tape, prop, &f.v.rule);
        if v.prop == "??" {
            eprintln!("harness error: violation {}.{} at run {} did not reproduce in-process (nondeterminism)", prop, f.v.rule, f.idx);
            eprintln!("  detail: {}\n  scenario: {}", f.v.detail, serde_json::to_string(&f.scn).unwrap_or_default());
            return 2;
        }
        let rf = ReplayFile {
            property: prop.to_string(),
            rule: v.rule.clone(),
            tags: v.tags.clone(),
            detail: v.detail.clone(),
            seed,
            run_index: f.idx,
            scenario: scn,
            tape,
            full_hash: hash,
        };
        let body = serde_json::to_string_pretty(&rf).unwrap();
        let path = format!("{}/replays/{}-{}-{:08x}.json", verif_dir(), prop, v.rule, fnv(&body) as u32);
        std::fs::write(&path, &body).unwrap();
        let exe = std::env::current_exe().unwrap();
        let st = std::process::Command::new(exe)
            .arg("replay")
            .arg(&path)
            .env("VERIF_REPLAY_QUIET", "1")
            .output();
        match st {
            Ok(o) if o.status.code() == Some(1) => {}
            Ok(o) => {
                eprintln!(
                    "harness error: minimised replay {path} did not reproduce in a fresh process (exit {:?})\n{}",
                    o.status.code(),
                    String::from_utf8_lossy(&o.stdout)
                );
                return 2;
            }
            Err(e) => {
                eprintln!("harness error: cannot spawn replay: {e}");
                return 2;
            }
        }
        println!("violation {}.{} {:?}: {}", prop, v.rule, v.tags, v.detail);
        println!("VIOLATION property={} replay={}", prop, path);
        replay_paths.push(path);
        exit = 1;
    }
    for l in &known_lines {
        println!("{l}");
    }
    if agg.overruns > 0 {
        println!("note: {} run(s) hit a harness bound (poll/tape limit); they are not counted as violations", agg.overruns);
    }

    // evidence
    let faults: BTreeMap<&str, u64> = agg.counters.iter().filter(|(k, _)| k.starts_with("fault.")).map(|(k, v)| (*k, *v)).collect();
    let probes: BTreeMap<&str, u64> = agg.counters.iter().filter(|(k, _)| k.starts_with("probe.")).map(|(k, v)| (*k, *v)).collect();
    let ops: BTreeMap<&str, u64> = agg.counters.iter().filter(|(k, _)| k.starts_with("op.")).map(|(k, v)| (*k, *v)).collect();
    let zero_probes: Vec<&str> = spec_probe_names(spec).into_iter().filter(|p| !agg.counters.contains_key(p)).collect();
    let ev = json!({
        "property_id": prop,
        "tier": tier,
        "seed": seed as i64,
        "level": spec.level,
        "wall_s": wall,
        "violations": violation_count,
        "coverage": {
            "evaluations": agg.evaluations,
            "distinct_nontrivial": agg.sigs_nontrivial.len(),
            "rule": spec.rule,
            "samples": agg.samples,
            "distinct_interleavings": agg.sigs.len(),
            "interleaving_measure": "hash of the sequence of (task, event kind, result kind) over the whole run; ids, bodies and times abstracted away",
            "runs_per_hour": (agg.evaluations as f64 / wall.max(1e-6) * 3600.0) as u64,
            "task_polls": agg.polls,
            "history_events": agg.events,
            "simulated_seconds": (agg.sim_ms as f64) / 1000.0,
            "faults_fired": faults,
            "probes_hit": probes,
            "probes_at_zero": zero_probes,
            "transport_ops": ops,
            "runs_per_generator": agg.per_gen,
            "runs_hitting_harness_bounds": agg.overruns,
            "violations_of_other_properties_seen": agg.other_props,
            "known_findings_matched": known_lines,
            "replays": replay_paths,
            "real_components": spec.real,
            "stubbed_components": spec.stub,
            "exhaustive": false,
        },
        "assumptions": spec.assumptions,
    });
    let dir = format!("{}/evidence", verif_dir());
    let _ = std::fs::create_dir_all(&dir);
    let path = format!("{dir}/{prop}.json");
    if let Err(e) = std::fs::write(&path, serde_json::to_string_pretty(&ev).unwrap()) {
        eprintln!("harness error: cannot write {path}: {e}");
        return 2;
    }
    println!(
        "{} runs in {:.1}s ({} distinct interleavings, {} non-trivial), {} violation class(es), {} known finding(s); evidence -> {}",
        agg.evaluations,
        wall,
        agg.sigs.len(),
        agg.sigs_nontrivial.len(),
        violation_count,
        known_lines.len(),
        path
    );
    exit
}

/// The faults and rare conditions each family of generators is expected to reach; any of
/// these that never fired in a batch is listed in the evidence as `probes_at_zero`.
fn spec_probe_names(spec: &CheckSpec) -> Vec<&'static str> {
    let mut v: Vec<&'static str> = Vec::new();
    let has = |p: &str| spec.gens.iter().any(|g| g.name.starts_with(p));
    if has("client.") {
        v.extend(["fault.stall", "fault.not_ready", "fault.unsolicited_reply", "fault.drop_handles", "probe.preempt", "probe.cancel_on_wire", "probe.abandoned_before_transmission", "probe.reply_for_unknown_id", "probe.duplicate_reply", "probe.reply_within_1ms_of_deadline", "probe.abandoned_after_reply_was_read", "probe.idle_at_in_flight_capacity"]);
    }
    if has("client.faults") || spec.gens.iter().any(|g| g.name.contains("fault-enum")) {
        v.extend(["fault.err_ready", "fault.err_send", "fault.err_flush", "fault.err_next", "fault.eof_next", "probe.request_write_failed"]);
    }
    if has("server.") {
        v.extend(["fault.stall", "fault.not_ready", "fault.drop_unrun", "fault.drop_handler_midway", "fault.peer_eof", "probe.preempt", "probe.duplicate_while_in_flight_ignored", "probe.expired_on_arrival", "probe.cancel_after_handler_finished"]);
    }
    if has("server.limit") {
        v.extend(["probe.request_throttled", "probe.idle_at_limit_with_unready_sink"]);
    }
    if has("listener") {
        v.extend(["fault.channel_closed", "probe.shed", "probe.close_and_same_key_arrival_pending_together"]);
    }
    if has("bytes.roundtrip") {
        v.extend(["fault.pipe_partial_read", "fault.pipe_partial_write", "fault.pipe_read_pending", "fault.pipe_full", "probe.byte_by_byte_reads", "probe.reader_started_late"]);
    }
    if has("bytes.adversary") {
        v.extend(["fault.adversarial_chunk"]);
    }
    if has("e2e.") {
        v.extend(["fault.root_call_abandoned", "fault.clock_skew", "fault.stall"]);
    }
    if has("stubs") {
        v.extend(["fault.stub_call_abandoned"]);
    }
    if spec.gens.iter().any(|g| g.name == "stubs") {
        v.extend(["probe.concurrent_stub_calls", "probe.stub_rendered_with_debug"]);
    }
    if has("client.") {
        v.extend(["fault.waker_churn"]);
    }
    if has("server.general") || has("server.cancel") || has("server.limit") {
        v.extend(["fault.handler_panic_contained"]);
    }
    if has("server.limit") {
        v.extend(["probe.two_limits_on_one_channel", "probe.limit_from_listener_default"]);
    }
    if has("bytes.roundtrip") {
        v.extend(["probe.message_refused_by_narrow_framing"]);
    }
    v.sort();
    v.dedup();
    v
}

fn explore_cmd(name: &str, n: u64, seed: u64) -> i32 {
    let specs = profiles::checks();
    let mut gens = Vec::new();
    for s in &specs {
        for g in &s.gens {
            if g.name == name {
                gens.push(g);
            }
        }
    }
    let Some(g) = gens.first() else {
        eprintln!("no generator named {name}");
        return 2;
    };
    let t0 = Instant::now();
    let mut by_rule: BTreeMap<String, (u64, String, u64)> = BTreeMap::new();
    let mut polls = 0;
    for i in 0..n {
        let run_seed = mix(seed, i);
        let mut rng = Rng::new(run_seed);
        let scn = (g.f)(&mut rng);
        let out = profiles::run_scenario(&scn, Tape::record(mix(run_seed, 0xA11CE)));
        polls += out.polls;
        for v in &out.violations {
            let e = by_rule.entry(format!("{}.{} {:?}", v.prop, v.rule, v.tags)).or_insert((0, v.detail.clone(), i));
            e.0 += 1;
        }
        if out.overrun {
            by_rule.entry("overrun".into()).or_insert((0, String::new(), i)).0 += 1;
        }
    }
    println!("{n} runs, {polls} polls, {:.2}s", t0.elapsed().as_secs_f64());
    for (k, (c, d, i)) in by_rule {
        println!("{c:>8}  {k}   first at run {i}: {d}");
    }
    0
}

fn show_cmd(name: &str, idx: u64, seed: u64) -> i32 {
    let specs = profiles::checks();
    for s in &specs {
        for g in &s.gens {
            if g.name == name {
                let run_seed = mix(seed, idx);
                let mut rng = Rng::new(run_seed);
                let scn = (g.f)(&mut rng);
                WANT_LOG.store(true, Ordering::Relaxed);
                let out = profiles::run_scenario(&scn, Tape::record(mix(run_seed, 0xA11CE)));
                println!("{}", serde_json::to_string_pretty(&scn).unwrap());
                println!("{}", out.log_text);
                for v in &out.violations {
                    println!("violation {}.{} {:?}: {}", v.prop, v.rule, v.tags, v.detail);
                }
                return 0;
            }
        }
    }
    2
}

/// Determinism self-check: every run twice, hashes must agree (also across processes when the
/// caller diffs the printed digest of two invocations).
fn determinism_cmd(n: u64, seed: u64) -> i32 {
    let specs = profiles::checks();
    let mut digest = 0u64;
    let mut bad = 0;
    let mut total = 0u64;
    let mut per_gen: BTreeMap<&'static str, u64> = BTreeMap::new();
    for s in &specs {
        for g in &s.gens {
            for i in 0..n {
                let run_seed = mix(mix(seed, fnv(g.name)), i);
                let scn = (g.f)(&mut Rng::new(run_seed));
                let a = profiles::run_scenario(&scn, Tape::record(mix(run_seed, 1)));
                let b = profiles::run_scenario(&scn, Tape::record(mix(run_seed, 1)));
                let c = profiles::run_scenario(&scn, Tape::replay(a.tape.draws.clone()));
                total += 1;
                if a.overrun {
                    // hit a harness bound (poll or tape limit): not a comparable run
                    continue;
                }
                if a.full_hash != b.full_hash || a.full_hash != c.full_hash {
                    bad += 1;
                    *per_gen.entry(g.name).or_insert(0u64) += 1;
                    if bad == 1 || std::env::var("VERIF_ND_GEN").map(|x| x == g.name).unwrap_or(false) {
                        WANT_LOG.store(true, Ordering::Relaxed);
                        let a2 = profiles::run_scenario(&scn, Tape::record(mix(run_seed, 1)));
                        let b2 = profiles::run_scenario(&scn, Tape::record(mix(run_seed, 1)));
                        WANT_LOG.store(false, Ordering::Relaxed);
                        let _ = std::fs::write("/var/tmp/nd_a.log", format!("{}\n{}", serde_json::to_string_pretty(&scn).unwrap(), a2.log_text));
                        let _ = std::fs::write("/var/tmp/nd_b.log", format!("{}\n{}", serde_json::to_string_pretty(&scn).unwrap(), b2.log_text));
                    }
                    if bad < 5 {
                        println!("NONDETERMINISM gen={} run={} hashes {:x} {:x} {:x}", g.name, i, a.full_hash, b.full_hash, c.full_hash);
                    }
                }
                digest = mix(digest, a.full_hash);
            }
        }
    }
    println!("determinism: {total} scenarios x3 executions, {bad} divergent, digest={digest:016x} per-gen {per_gen:?}");
    if bad > 0 {
        2
    } else {
        0
    }
}

pub fn cli(args: &[String]) -> i32 {
    let seed: u64 = std::env::var("VERIF_SEED").ok().and_then(|s| s.parse::<i64>().ok().map(|x| x as u64)).unwrap_or(DEFAULT_SEED);
    match args.first().map(|s| s.as_str()) {
        Some("check") => {
            let prop = args.get(1).cloned().unwrap_or_default();
            let mut tier = std::env::var("VERIF_TIER").unwrap_or_else(|_| "quick".into());
            let mut i = 2;
            while i < args.len() {
                if args[i] == "--tier" && i + 1 < args.len() {
                    tier = args[i + 1].clone();
                    i += 1;
                }
                i += 1;
            }
            if tier != "quick" && tier != "thorough" {
                tier = "quick".into();
            }
            check_cmd(&prop, &tier)
        }
        Some("replay") => replay_cmd(args.get(1).map(|s| s.as_str()).unwrap_or("")),
        Some("explore") => explore_cmd(
            args.get(1).map(|s| s.as_str()).unwrap_or(""),
            args.get(2).and_then(|s| s.parse().ok()).unwrap_or(1000),
            seed,
        ),
        Some("show") => show_cmd(
            args.get(1).map(|s| s.as_str()).unwrap_or(""),
            args.get(2).and_then(|s| s.parse().ok()).unwrap_or(0),
            seed,
        ),
        Some("determinism") => determinism_cmd(args.get(1).and_then(|s| s.parse().ok()).unwrap_or(200), seed),
        Some("list") => {
            for s in profiles::checks() {
                println!("{} {} gens={:?}", s.prop, s.level, s.gens.iter().map(|g| g.name).collect::<Vec<_>>());
            }
            0
        }
        _ => {
            eprintln!("usage: tarpc-sim check <Cxx> [--tier quick|thorough] | replay <file> | explore <gen> <n> | show <gen> <idx> | determinism [n] | list");
            2
        }
    }
}
