//! The simulator's executor: a seeded scheduler running inside a paused tokio current-thread
//! runtime. Tasks are polled only after their waker fired (strict mode); which runnable task
//! goes next, and whether a task is preempted at a simulator-owned call, is read from the tape.

use crate::hist::{Ev, EvKind};
use crate::tape::{mix, Tape};
use std::any::Any;
use std::cell::{Cell, RefCell};
use std::collections::BTreeMap;
use std::future::Future;
use std::panic::{catch_unwind, AssertUnwindSafe};
use std::pin::Pin;
use std::rc::Rc;
use std::sync::atomic::{AtomicBool, Ordering};
use std::sync::{Arc, Mutex};
use std::task::{Context, Poll, Wake, Waker};
use std::time::Duration;

#[derive(Clone, Debug)]
pub struct Knobs {
    /// Probability (‰) of preempting at a preemption point.
    pub preempt_permille: u32,
    /// Max scheduling steps run at one preemption.
    pub nested_steps: u32,
    pub max_depth: u32,
    pub max_polls: u64,
    /// Probability (‰) that a scheduling step polls a task that was not woken (legal for any
    /// future; never used for C02 where lost wake-ups must show as hangs).
    pub spurious_permille: u32,
}

impl Default for Knobs {
    fn default() -> Self {
        Knobs {
            preempt_permille: 0,
            nested_steps: 3,
            max_depth: 3,
            max_polls: 20_000,
            spurious_permille: 0,
        }
    }
}

struct RootWake {
    waker: Mutex<Option<Waker>>,
}

struct TaskWake {
    flag: AtomicBool,
    root: Arc<RootWake>,
}

impl Wake for TaskWake {
    fn wake(self: Arc<Self>) {
        self.wake_by_ref()
    }
    fn wake_by_ref(self: &Arc<Self>) {
        self.flag.store(true, Ordering::SeqCst);
        let w = self.root.waker.lock().unwrap().clone();
        if let Some(w) = w {
            w.wake();
        }
    }
}

type TaskFut = Pin<Box<dyn Future<Output = ()>>>;

struct Slot {
    fut: Option<TaskFut>,
    wake: Arc<TaskWake>,
    waker: Waker,
    polling: bool,
    done: bool,
    kill_pending: bool,
    skew_ms: i64,
    /// Every poll of this task gets a waker of its own, and only the waker of the most recent
    /// poll schedules the task (what `Future::poll` promises, and what happens to a future that
    /// is polled by hand or under a combinator first and handed to another task later). Wakes
    /// through an older waker go nowhere.
    churn: bool,
    /// Background tasks (peers, chaos) never count as "work the run is waiting for".
    pub essential: bool,
}

pub type TaskId = usize;

pub struct Sim {
    tasks: RefCell<Vec<Slot>>,
    pub names: RefCell<Vec<String>>,
    tape: RefCell<Tape>,
    pub log: RefCell<Vec<Ev>>,
    seq: Cell<u64>,
    start: tokio::time::Instant,
    root: Arc<RootWake>,
    stack: RefCell<Vec<usize>>,
    pub knobs: Knobs,
    polls: Cell<u64>,
    pub counters: RefCell<BTreeMap<&'static str, u64>>,
    sig: Cell<u64>,
    full: Cell<u64>,
    pub overrun: Cell<bool>,
    preempt_on: Cell<bool>,
    pub panics: RefCell<Vec<(usize, String)>>,
    pub logging: Cell<bool>,
    /// Called for every logged event (used to feed stage boards); must not log itself.
    pub observer: RefCell<Option<Rc<dyn Fn(&EvKind)>>>,
}

thread_local! {
    static CUR: RefCell<Option<Rc<Sim>>> = const { RefCell::new(None) };
    static SKEW_MS: Cell<i64> = const { Cell::new(0) };
}

/// Clock skew (ms) of the task being polled.
pub fn cur_skew_ms() -> i64 {
    SKEW_MS.with(|s| s.get())
}

pub fn cur() -> Option<Rc<Sim>> {
    CUR.with(|c| c.borrow().clone())
}

fn sim_clock() -> std::time::Instant {
    let base = tokio::time::Instant::now().into_std();
    let skew = SKEW_MS.with(|s| s.get());
    if skew >= 0 {
        base + Duration::from_millis(skew as u64)
    } else {
        base.checked_sub(Duration::from_millis((-skew) as u64))
            .unwrap_or(base)
    }
}

thread_local! {
    static ID_CTR: Cell<u64> = const { Cell::new(0) };
}

/// Deterministic source of "random" ids (span ids, OpenTelemetry ids) for one run. It does not
/// draw from the tape, so it cannot perturb the schedule.
pub fn next_id() -> u64 {
    let c = ID_CTR.with(|c| {
        let v = c.get() + 1;
        c.set(v);
        v
    });
    crate::tape::splitmix(c ^ 0x5BD1_E995_97F4_A7C1) | 1
}

fn sim_yield(site: &'static str) {
    preempt(site);
}

/// A preemption point: with tape-decided probability, run a few scheduling steps of other tasks
/// right here, in the middle of the current task's poll.
pub fn preempt(site: &'static str) {
    if let Some(sim) = cur() {
        sim.preempt(site);
    }
}

/// Payload prefix of panics that scenarios raise on purpose.
pub const SCRIPTED_PANIC: &str = "SCRIPTED_PANIC";

pub fn panic_msg(p: &Box<dyn Any + Send>) -> String {
    if let Some(s) = p.downcast_ref::<&'static str>() {
        s.to_string()
    } else if let Some(s) = p.downcast_ref::<String>() {
        s.clone()
    } else {
        "<non-string panic>".to_string()
    }
}

thread_local! {
    static GUARD_DEPTH: Cell<u32> = const { Cell::new(0) };
}

/// catch_unwind that tells the panic hook the panic is expected to be caught.
pub fn guarded<R>(f: impl FnOnce() -> R) -> std::thread::Result<R> {
    GUARD_DEPTH.with(|g| g.set(g.get() + 1));
    let r = catch_unwind(AssertUnwindSafe(f));
    GUARD_DEPTH.with(|g| g.set(g.get() - 1));
    r
}

thread_local! {
    pub static LAST_PANIC_LOC: RefCell<Option<String>> = const { RefCell::new(None) };
}

/// Install once per process: remembers the location of the last panic and stays quiet.
pub fn install_panic_hook() {
    std::panic::set_hook(Box::new(|info| {
        let loc = info
            .location()
            .map(|l| format!("{}:{}", l.file(), l.line()))
            .unwrap_or_default();
        let guarded = GUARD_DEPTH.with(|g| g.get()) > 0;
        if !guarded || std::env::var("VERIF_DEBUG_PANICS").is_ok() {
            eprintln!("harness panic: {info}");
        }
        LAST_PANIC_LOC.with(|l| *l.borrow_mut() = Some(loc));
    }));
}

impl Sim {
    pub fn now_ms(&self) -> i64 {
        (tokio::time::Instant::now() - self.start).as_millis() as i64
    }

    /// std Instant of virtual millisecond `ms` (may be before start: clamped by caller).
    pub fn instant_at(&self, ms: i64) -> std::time::Instant {
        let s = self.start.into_std();
        if ms >= 0 {
            s + Duration::from_millis(ms as u64)
        } else {
            s.checked_sub(Duration::from_millis((-ms) as u64)).unwrap_or(s)
        }
    }

    pub fn start_std(&self) -> std::time::Instant {
        self.start.into_std()
    }

    /// Signed virtual milliseconds of a std Instant relative to the run's start, plus
    /// sub-millisecond remainder discarded toward -inf.
    pub fn ms_of(&self, i: std::time::Instant) -> i64 {
        let s = self.start.into_std();
        match i.checked_duration_since(s) {
            Some(d) => d.as_millis().min(i64::MAX as u128) as i64,
            None => {
                let d = s.duration_since(i);
                -((d.as_nanos().div_ceil(1_000_000)) as i64)
            }
        }
    }

    pub fn micros_of(&self, i: std::time::Instant) -> i128 {
        let s = self.start.into_std();
        match i.checked_duration_since(s) {
            Some(d) => d.as_micros() as i128,
            None => -(s.duration_since(i).as_micros() as i128),
        }
    }

    /// 1 when the current task is polled from the top-level loop, more when it runs nested inside
    /// another task's poll (preemption).
    pub fn depth(&self) -> usize {
        self.stack.borrow().len()
    }

    pub fn cur_task(&self) -> u16 {
        self.stack.borrow().last().map(|x| *x as u16).unwrap_or(u16::MAX)
    }

    pub fn log(&self, kind: EvKind) -> u64 {
        let seq = self.seq.get();
        self.seq.set(seq + 1);
        let code = kind.sig_code();
        if code != 0 {
            self.sig.set(mix(self.sig.get(), code ^ ((self.cur_task() as u64) << 32)));
        }
        let t = self.now_ms();
        self.full
            .set(mix(self.full.get(), mix(kind.full_hash(), t as u64)));
        let obs = self.observer.borrow().clone();
        if let Some(o) = obs {
            o(&kind);
        }
        if self.logging.get() {
            self.log.borrow_mut().push(Ev {
                seq,
                t,
                task: self.cur_task(),
                kind,
            });
        }
        seq
    }

    pub fn seq(&self) -> u64 {
        self.seq.get()
    }

    pub fn count(&self, what: &'static str) {
        *self.counters.borrow_mut().entry(what).or_insert(0) += 1;
    }

    pub fn draw(&self, n: u32) -> u32 {
        self.tape.borrow_mut().draw(n)
    }

    pub fn chance(&self, permille: u32) -> bool {
        self.tape.borrow_mut().chance(permille)
    }

    pub fn sig(&self) -> u64 {
        self.sig.get()
    }
    pub fn full_hash(&self) -> u64 {
        self.full.get()
    }
    pub fn polls(&self) -> u64 {
        self.polls.get()
    }
    pub fn take_tape(&self) -> Tape {
        std::mem::take(&mut *self.tape.borrow_mut())
    }
    pub fn tape_exhausted(&self) -> bool {
        self.tape.borrow().exhausted
    }

    /// New tasks run on the clock (skew) of the task that spawns them.
    pub fn spawn<F: Future<Output = ()> + 'static>(&self, name: &str, fut: F) -> TaskId {
        self.spawn_opts(name, true, cur_skew_ms(), fut)
    }

    pub fn spawn_bg<F: Future<Output = ()> + 'static>(&self, name: &str, fut: F) -> TaskId {
        self.spawn_opts(name, false, cur_skew_ms(), fut)
    }

    /// Virtual milliseconds (on the global clock) of an instant taken from the *current task's*
    /// clock, which may be skewed.
    pub fn ms_of_local(&self, i: std::time::Instant) -> i64 {
        self.ms_of(i) - cur_skew_ms()
    }

    pub fn spawn_opts<F: Future<Output = ()> + 'static>(
        &self,
        name: &str,
        essential: bool,
        skew_ms: i64,
        fut: F,
    ) -> TaskId {
        let wake = Arc::new(TaskWake {
            flag: AtomicBool::new(true),
            root: self.root.clone(),
        });
        let waker = Waker::from(wake.clone());
        let mut tasks = self.tasks.borrow_mut();
        tasks.push(Slot {
            fut: Some(Box::pin(fut)),
            wake,
            waker,
            polling: false,
            done: false,
            kill_pending: false,
            skew_ms,
            churn: false,
            essential,
        });
        self.names.borrow_mut().push(name.to_string());
        tasks.len() - 1
    }

    /// From now on every poll of the task hands it a fresh waker; older ones are dead.
    pub fn set_waker_churn(&self, id: TaskId, on: bool) {
        self.tasks.borrow_mut()[id].churn = on;
    }

    pub fn is_done(&self, id: TaskId) -> bool {
        self.tasks.borrow()[id].done
    }

    pub fn all_essential_done(&self) -> bool {
        self.tasks.borrow().iter().all(|s| s.done || !s.essential)
    }

    /// Drops a task's future (a crash of that component). Safe to call from inside another
    /// task's poll.
    pub fn kill(&self, id: TaskId) {
        let fut = {
            let mut tasks = self.tasks.borrow_mut();
            let s = &mut tasks[id];
            if s.done {
                return;
            }
            if s.polling {
                s.kill_pending = true;
                return;
            }
            s.done = true;
            s.fut.take()
        };
        self.log(EvKind::TaskDropped { victim: id as u16 });
        // Dropping runs user Drop impls (guards, handlers); attribute their events to the victim.
        self.stack.borrow_mut().push(id);
        let r = guarded(|| drop(fut));
        self.stack.borrow_mut().pop();
        if let Err(p) = r {
            let msg = panic_msg(&p);
            self.panics.borrow_mut().push((id, msg.clone()));
            self.log(EvKind::Panic { msg });
        }
    }

    fn runnable(&self) -> Vec<usize> {
        self.tasks
            .borrow()
            .iter()
            .enumerate()
            .filter(|(_, s)| !s.done && !s.polling && s.fut.is_some() && s.wake.flag.load(Ordering::SeqCst))
            .map(|(i, _)| i)
            .collect()
    }

    pub fn any_runnable(&self) -> bool {
        !self.runnable().is_empty()
    }

    /// One scheduling step: pick a woken task (tape), poll it once. Returns false if nothing is
    /// runnable.
    pub fn step(&self) -> bool {
        if self.polls.get() >= self.knobs.max_polls {
            self.overrun.set(true);
            return false;
        }
        let mut cands = self.runnable();
        if self.knobs.spurious_permille > 0 && self.chance(self.knobs.spurious_permille) {
            let extra: Vec<usize> = self
                .tasks
                .borrow()
                .iter()
                .enumerate()
                .filter(|(_, s)| !s.done && !s.polling && s.fut.is_some())
                .map(|(i, _)| i)
                .collect();
            if !extra.is_empty() {
                self.count("fault.spurious_poll");
                cands = extra;
            }
        }
        if cands.is_empty() {
            return false;
        }
        let pick = cands[self.draw(cands.len() as u32) as usize];
        self.poll_task(pick);
        true
    }

    fn poll_task(&self, id: usize) {
        self.polls.set(self.polls.get() + 1);
        let (mut fut, waker, skew) = {
            let mut tasks = self.tasks.borrow_mut();
            let s = &mut tasks[id];
            if s.churn {
                // wakes that arrive through the previous waker while this poll runs are lost,
                // exactly as they would be for a future that moved to another task
                s.wake = Arc::new(TaskWake { flag: AtomicBool::new(false), root: self.root.clone() });
                s.waker = Waker::from(s.wake.clone());
            }
            s.wake.flag.store(false, Ordering::SeqCst);
            s.polling = true;
            (s.fut.take().unwrap(), s.waker.clone(), s.skew_ms)
        };
        self.stack.borrow_mut().push(id);
        let prev_skew = SKEW_MS.with(|s| s.replace(skew));
        self.log(EvKind::PollBegin);
        let mut cx = Context::from_waker(&waker);
        let r = guarded(|| fut.as_mut().poll(&mut cx));
        let (ready, panicked) = match &r {
            Ok(Poll::Ready(())) => (true, None),
            Ok(Poll::Pending) => (false, None),
            Err(p) => (true, Some(panic_msg(p))),
        };
        // a panic the scenario asked for (a handler that panics, contained by the executor as
        // tokio's task harness would contain it) is an event, not a finding
        let scripted = panicked.as_deref().map(|m| m.starts_with(SCRIPTED_PANIC)).unwrap_or(false);
        if scripted {
            LAST_PANIC_LOC.with(|l| l.borrow_mut().take());
            self.count("fault.handler_panic_contained");
            self.log(EvKind::Note { what: "scripted_panic", a: id as i64, b: 0 });
        }
        if let Some(msg) = panicked.filter(|_| !scripted) {
            let loc = LAST_PANIC_LOC.with(|l| l.borrow_mut().take()).unwrap_or_default();
            let msg = format!("{msg} @ {loc}");
            self.panics.borrow_mut().push((id, msg.clone()));
            self.log(EvKind::Panic { msg });
        }
        self.log(EvKind::PollEnd { ready });
        let kill = {
            let mut tasks = self.tasks.borrow_mut();
            let s = &mut tasks[id];
            s.polling = false;
            let k = s.kill_pending;
            s.kill_pending = false;
            k
        };
        if ready || kill {
            {
                let mut tasks = self.tasks.borrow_mut();
                tasks[id].done = true;
            }
            if kill && !ready {
                self.log(EvKind::TaskDropped { victim: id as u16 });
            }
            let r = guarded(|| drop(fut));
            if let Err(p) = r {
                let msg = panic_msg(&p);
                self.panics.borrow_mut().push((id, msg.clone()));
                self.log(EvKind::Panic { msg });
            }
        } else {
            self.tasks.borrow_mut()[id].fut = Some(fut);
        }
        SKEW_MS.with(|s| s.set(prev_skew));
        self.stack.borrow_mut().pop();
    }

    pub fn set_preempt(&self, on: bool) {
        self.preempt_on.set(on);
    }

    pub fn preempt(&self, site: &'static str) {
        if !self.preempt_on.get() || self.knobs.preempt_permille == 0 {
            return;
        }
        let depth = self.stack.borrow().len() as u32;
        if depth == 0 || depth > self.knobs.max_depth {
            return;
        }
        if !self.chance(self.knobs.preempt_permille) {
            return;
        }
        let k = 1 + self.draw(self.knobs.nested_steps.max(1));
        let mut done = 0;
        for _ in 0..k {
            if !self.step() {
                break;
            }
            done += 1;
        }
        if done > 0 {
            self.count("probe.preempt");
            if depth >= 2 {
                self.count("probe.preempt_nested");
            }
            self.log(EvKind::Preempt { site, steps: done });
        }
    }
}

pub enum IdleAct {
    /// Let virtual time advance to the next timer.
    Wait,
    /// The idle hook made something runnable: keep stepping.
    Again,
    Stop,
}

struct Root<'a, I: FnMut(&Rc<Sim>) -> IdleAct> {
    sim: &'a Rc<Sim>,
    horizon: Pin<Box<tokio::time::Sleep>>,
    idle: I,
    stopped: bool,
}

impl<I: FnMut(&Rc<Sim>) -> IdleAct + Unpin> Future for Root<'_, I> {
    type Output = bool; // true = horizon reached
    fn poll(mut self: Pin<&mut Self>, cx: &mut Context<'_>) -> Poll<bool> {
        let this = &mut *self;
        *this.sim.root.waker.lock().unwrap() = Some(cx.waker().clone());
        if this.stopped {
            return Poll::Ready(false);
        }
        if this.horizon.as_mut().poll(cx).is_ready() {
            return Poll::Ready(true);
        }
        if this.sim.step() {
            // Return to tokio after every top-level step: resets the cooperative budget so that
            // each simulated poll has its own, exactly like a spawned task.
            cx.waker().wake_by_ref();
            return Poll::Pending;
        }
        if this.sim.overrun.get() {
            return Poll::Ready(false);
        }
        this.sim.log(EvKind::Idle);
        match (this.idle)(this.sim) {
            IdleAct::Stop => Poll::Ready(false),
            IdleAct::Again => {
                cx.waker().wake_by_ref();
                Poll::Pending
            }
            IdleAct::Wait => {
                if this.sim.any_runnable() {
                    cx.waker().wake_by_ref();
                }
                Poll::Pending
            }
        }
    }
}

pub struct RunEnd {
    pub horizon_reached: bool,
    pub end_ms: i64,
}

/// Runs one simulation. `setup` spawns the tasks; `idle` is called whenever nothing is runnable
/// (before time moves); after the run every remaining task is dropped (with preemption off)
/// while the hooks are still installed, then `finish` sees the final state.
pub fn run_sim<S, R>(
    tape: Tape,
    knobs: Knobs,
    horizon_ms: u64,
    logging: bool,
    setup: impl FnOnce(&Rc<Sim>) -> S,
    mut idle: impl FnMut(&Rc<Sim>, &mut S) -> IdleAct,
    finish: impl FnOnce(&Rc<Sim>, S, &RunEnd) -> R,
) -> R {
    let rt = tokio::runtime::Builder::new_current_thread()
        .enable_time()
        .start_paused(true)
        .build()
        .expect("tokio runtime");
    let out = rt.block_on(async move {
        let sim = Rc::new(Sim {
            tasks: RefCell::new(Vec::new()),
            names: RefCell::new(Vec::new()),
            tape: RefCell::new(tape),
            log: RefCell::new(Vec::new()),
            seq: Cell::new(0),
            start: tokio::time::Instant::now(),
            root: Arc::new(RootWake {
                waker: Mutex::new(None),
            }),
            stack: RefCell::new(Vec::new()),
            knobs,
            polls: Cell::new(0),
            counters: RefCell::new(BTreeMap::new()),
            sig: Cell::new(0),
            full: Cell::new(0),
            overrun: Cell::new(false),
            preempt_on: Cell::new(true),
            panics: RefCell::new(Vec::new()),
            logging: Cell::new(logging),
            observer: RefCell::new(None),
        });
        CUR.with(|c| *c.borrow_mut() = Some(sim.clone()));
        tarpc::verif_hooks::set_clock(Some(sim_clock));
        tarpc::verif_hooks::set_yield(Some(sim_yield));
        ID_CTR.with(|c| c.set(0));
        tarpc::verif_hooks::set_span_ids(Some(next_id));
        let mut state = setup(&sim);
        let horizon_reached = {
            let state_ref = &mut state;
            let root = Root {
                sim: &sim,
                horizon: Box::pin(tokio::time::sleep(Duration::from_millis(horizon_ms))),
                idle: |s: &Rc<Sim>| idle(s, state_ref),
                stopped: false,
            };
            root.await
        };
        let end = RunEnd {
            horizon_reached,
            end_ms: sim.now_ms(),
        };
        // Teardown: drop every remaining task in creation order, no preemption.
        sim.set_preempt(false);
        if horizon_reached {
            // nothing was runnable and no timer was due before the horizon: the clock jumped
            // there from the last quiescent point, and this is one more such point
            sim.log(EvKind::Idle);
        }
        sim.log(EvKind::Note { what: "teardown", a: 0, b: 0 });
        let n = sim.tasks.borrow().len();
        for id in 0..n {
            sim.kill(id);
        }
        *sim.observer.borrow_mut() = None;
        let r = finish(&sim, state, &end);
        tarpc::verif_hooks::set_clock(None);
        tarpc::verif_hooks::set_yield(None);
        tarpc::verif_hooks::set_span_ids(None);
        CUR.with(|c| *c.borrow_mut() = None);
        r
    });
    drop(rt);
    out
}
