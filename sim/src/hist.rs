//! The recorded history of one run.

use serde::Serialize;

/// Summary of a protocol message crossing a (simulated or tapped) transport.
#[derive(Clone, Debug, Serialize, PartialEq, Eq)]
pub enum Item {
    Req {
        id: u64,
        tag: u64,
        /// Deadline carried by the request, as absolute virtual milliseconds (may be negative).
        deadline_ms: i64,
        trace: u128,
        span: u64,
        sampled: bool,
    },
    Cancel {
        id: u64,
        trace: u128,
        span: u64,
        sampled: bool,
    },
    Resp {
        id: u64,
        ok: Option<u64>,
        err: Option<(String, String)>,
    },
    Other(String),
}

impl Item {
    pub fn id(&self) -> Option<u64> {
        match self {
            Item::Req { id, .. } | Item::Cancel { id, .. } | Item::Resp { id, .. } => Some(*id),
            Item::Other(_) => None,
        }
    }
    fn code(&self) -> u64 {
        match self {
            Item::Req { .. } => 1,
            Item::Cancel { .. } => 2,
            Item::Resp { err: None, .. } => 3,
            Item::Resp { .. } => 4,
            Item::Other(_) => 5,
        }
    }
    /// Hash contribution with random span ids left out.
    fn stable_hash(&self) -> u64 {
        use crate::tape::mix;
        match self {
            Item::Req {
                id,
                tag,
                deadline_ms,
                trace,
                sampled,
                ..
            } => mix(
                mix(mix(1, *id), *tag),
                mix(*deadline_ms as u64, (*trace as u64) ^ (*sampled as u64)),
            ),
            Item::Cancel {
                id, trace, sampled, ..
            } => mix(mix(2, *id), (*trace as u64) ^ (*sampled as u64)),
            Item::Resp { id, ok, err } => mix(
                mix(3, *id),
                mix(ok.unwrap_or(u64::MAX), err.as_ref().map(|e| e.1.len() as u64).unwrap_or(0)),
            ),
            Item::Other(s) => mix(5, s.len() as u64),
        }
    }
}

#[derive(Clone, Copy, Debug, Serialize, PartialEq, Eq)]
pub enum Res {
    Ok,
    Pending,
    Err,
    Eof,
}

#[derive(Clone, Copy, Debug, Serialize, PartialEq, Eq, Hash, PartialOrd, Ord)]
pub enum Op {
    Ready,
    Send,
    Flush,
    Close,
    Next,
}

#[derive(Clone, Debug, Serialize, PartialEq, Eq)]
pub enum Outcome {
    Ok(u64),
    Server(String, String),
    DeadlineExceeded,
    Shutdown,
    Send,
    Channel(String),
}

#[derive(Clone, Debug, Serialize)]
pub enum EvKind {
    // transport operations as seen by the component under test
    TOp {
        link: u8,
        op: Op,
        res: Res,
        item: Option<Item>,
    },
    // what the scripted peer did with the far end of a link
    PeerPush {
        link: u8,
        item: Item,
    },
    PeerTake {
        link: u8,
        item: Item,
    },
    PeerEof {
        link: u8,
    },
    PollBegin,
    PollEnd {
        ready: bool,
    },
    Panic {
        msg: String,
    },
    TaskDropped {
        victim: u16,
    },
    Invoke {
        call: u32,
        tag: u64,
        deadline_ms: i64,
        trace: u128,
        sampled: bool,
    },
    Resolve {
        call: u32,
        outcome: Outcome,
    },
    Abandon {
        call: u32,
    },
    CallSkipped {
        call: u32,
    },
    DispatchDone {
        node: u8,
        res: String,
    },
    Sample {
        node: u8,
        what: &'static str,
        value: u64,
    },
    Yielded {
        node: u8,
        id: u64,
        tag: u64,
        deadline_ms: i64,
        trace: u128,
        span: u64,
        sampled: bool,
    },
    StreamErr {
        node: u8,
        activity: String,
    },
    StreamEnd {
        node: u8,
    },
    HandlerStart {
        node: u8,
        id: u64,
        inc: u32,
        deadline_ms: i64,
        deadline_us: i64,
        trace: u128,
        span: u64,
        sampled: bool,
    },
    HandlerPoll {
        node: u8,
        id: u64,
        inc: u32,
    },
    HandlerFinish {
        node: u8,
        id: u64,
        inc: u32,
    },
    HandlerDrop {
        node: u8,
        id: u64,
        inc: u32,
        finished: bool,
    },
    ExecDone {
        node: u8,
        id: u64,
        inc: u32,
    },
    UnrunDropped {
        node: u8,
        id: u64,
        inc: u32,
    },
    Idle,
    Fault {
        kind: &'static str,
        arg: i64,
    },
    Preempt {
        site: &'static str,
        steps: u32,
    },
    Note {
        what: &'static str,
        a: i64,
        b: i64,
    },
}

#[derive(Clone, Debug, Serialize)]
pub struct Ev {
    pub seq: u64,
    pub t: i64,
    pub task: u16,
    pub kind: EvKind,
}

impl EvKind {
    /// Abstract code (ids, bodies and times left out) for the interleaving signature.
    pub fn sig_code(&self) -> u64 {
        use EvKind::*;
        match self {
            TOp {
                link, op, res, item, ..
            } => {
                100 + (*link as u64) * 1000
                    + (*op as u64) * 40
                    + (*res as u64) * 8
                    + item.as_ref().map(|i| i.code()).unwrap_or(0)
            }
            PeerPush { link, item } => 10_000 + (*link as u64) * 10 + item.code(),
            PeerTake { link, item } => 11_000 + (*link as u64) * 10 + item.code(),
            PeerEof { link } => 12_000 + *link as u64,
            PollBegin => 1,
            PollEnd { ready } => 2 + *ready as u64,
            Panic { .. } => 4,
            TaskDropped { .. } => 5,
            Invoke { .. } => 6,
            Resolve { outcome, .. } => {
                20 + match outcome {
                    Outcome::Ok(_) => 0,
                    Outcome::Server(..) => 1,
                    Outcome::DeadlineExceeded => 2,
                    Outcome::Shutdown => 3,
                    Outcome::Send => 4,
                    Outcome::Channel(_) => 5,
                }
            }
            Abandon { .. } => 7,
            CallSkipped { .. } => 8,
            DispatchDone { .. } => 9,
            Sample { .. } => 0,
            Yielded { .. } => 30,
            StreamErr { .. } => 31,
            StreamEnd { .. } => 32,
            HandlerStart { .. } => 39,
            HandlerPoll { .. } => 33,
            HandlerFinish { .. } => 34,
            HandlerDrop { finished, .. } => 35 + *finished as u64,
            ExecDone { .. } => 37,
            UnrunDropped { .. } => 38,
            Idle => 40,
            Fault { kind, .. } => 41 + kind.len() as u64,
            Preempt { .. } => 60,
            Note { what, .. } => 70 + (what.len() as u64 % 25),
        }
    }

    /// Full (but span-id free) hash for determinism checks.
    pub fn full_hash(&self) -> u64 {
        use crate::tape::mix;
        use EvKind::*;
        let h = self.sig_code();
        match self {
            TOp { item: Some(i), .. } | PeerPush { item: i, .. } | PeerTake { item: i, .. } => {
                mix(h, i.stable_hash())
            }
            Invoke {
                call,
                tag,
                deadline_ms,
                ..
            } => mix(mix(h, *call as u64), mix(*tag, *deadline_ms as u64)),
            Resolve { call, outcome } => mix(
                mix(h, *call as u64),
                match outcome {
                    Outcome::Ok(b) => *b,
                    Outcome::Server(_, d) => d.len() as u64,
                    Outcome::Channel(a) => a.len() as u64,
                    _ => 0,
                },
            ),
            Abandon { call } | CallSkipped { call } => mix(h, *call as u64),
            Sample { value, what, .. } => mix(mix(h, *value), what.len() as u64),
            Yielded { id, tag, .. } => mix(mix(h, *id), *tag),
            HandlerStart { id, inc, deadline_ms, .. } => mix(mix(h, *id), mix(*inc as u64, *deadline_ms as u64)),
            HandlerPoll { id, inc, .. }
            | HandlerFinish { id, inc, .. }
            | HandlerDrop { id, inc, .. }
            | ExecDone { id, inc, .. }
            | UnrunDropped { id, inc, .. } => mix(mix(h, *id), *inc as u64),
            Fault { arg, .. } => mix(h, *arg as u64),
            Preempt { steps, site } => mix(mix(h, *steps as u64), site.len() as u64),
            Note { a, b, what } => mix(mix(h, *a as u64), mix(*b as u64, what.len() as u64)),
            DispatchDone { res, .. } => mix(h, res.len() as u64),
            StreamErr { activity, .. } => mix(h, activity.len() as u64),
            Panic { msg } => mix(h, msg.len() as u64),
            TaskDropped { victim } => mix(h, *victim as u64),
            _ => h,
        }
    }
}

pub fn render(evs: &[Ev], task_names: &[String]) -> String {
    let mut s = String::new();
    for e in evs {
        let name = task_names
            .get(e.task as usize)
            .map(|s| s.as_str())
            .unwrap_or("-");
        s.push_str(&format!(
            "#{:<5} t={:<8} {:<14} {:?}\n",
            e.seq, e.t, name, e.kind
        ));
    }
    s
}
