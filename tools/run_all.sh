#!/bin/bash
# Runs every claimed check at the given tier; prints one line per check.
tier="${1:-quick}"
cd "$(dirname "$0")/.." || exit 2
for p in $(python3 -c "import json;print(' '.join(c['property_id'] for c in json.load(open('MANIFEST.json'))['checks']))"); do
  s=$(date +%s.%N)
  out=$(./check "$p" --tier "$tier" 2>&1); rc=$?
  e=$(date +%s.%N)
  printf "%s exit=%s wall=%.1fs  %s\n" "$p" "$rc" "$(echo "$e - $s" | bc)" "$(echo "$out" | grep -E '^(VIOLATION|KNOWN-FINDING|harness)' | cut -c1-160 | tr '\n' '|')"
done
