#!/bin/bash
# usage: try_mutant_iso.sh <patch.diff> <prop> [<prop>...]
# Like try_mutant.sh, but leaves /repo alone: the patch is applied to a scratch worktree of /repo
# (/var/tmp/mrepo$S) and the simulator is built from a scratch copy of /verif/sim whose tarpc path
# dependency points there (/var/tmp/msim$S). Use while something else (a background thorough run)
# is building from /repo. Evidence and replays go to /var/tmp/mverif$S.
set -u
patch="$(readlink -f "$1")"; shift
S="${ISO_SUFFIX:-}"   # several of these can run side by side, each with its own suffix
if [ ! -d /var/tmp/mrepo$S ]; then git -C /repo worktree add -q --detach /var/tmp/mrepo$S HEAD || exit 2; fi
git -C /var/tmp/mrepo$S reset -q --hard "$(git -C /repo rev-parse HEAD)"
mkdir -p /var/tmp/msim$S /var/tmp/mverif$S
rsync -a --delete --exclude target --exclude build.log --exclude 'last-*.stderr' /verif/sim/ /var/tmp/msim$S/
sed -i "s#path = \"/repo/tarpc\"#path = \"/var/tmp/mrepo$S/tarpc\"#" /var/tmp/msim$S/Cargo.toml
cp /verif/known_findings.json /var/tmp/mverif$S/
cd /var/tmp/mrepo$S || exit 2
if ! git apply "$patch" 2>/dev/null; then echo "patch does not apply cleanly"; exit 2; fi
cd /var/tmp/msim$S || exit 2
if ! CARGO_NET_OFFLINE=true cargo build --release --offline >/var/tmp/msim$S/build.log 2>&1; then echo "build failed"; tail -5 /var/tmp/msim$S/build.log; git -C /var/tmp/mrepo$S reset -q --hard; exit 2; fi
for p in "$@"; do
  out=$(VERIF_DIR=/var/tmp/mverif$S VERIF_SCALE=${VERIF_SCALE:-1} /var/tmp/msim$S/target/release/tarpc-sim check "$p" 2>/dev/null); rc=$?
  echo "== $p exit=$rc"
  echo "$out" | grep -E "^(violation|VIOLATION|KNOWN|harness)" | cut -c1-300 | head -8
done
git -C /var/tmp/mrepo$S reset -q --hard
