#!/bin/bash
# usage: try_mutant_iso.sh <patch.diff> <prop> [<prop>...]
# Like try_mutant.sh, but leaves /repo alone: the patch is applied to a scratch worktree of /repo
# (/var/tmp/mrepo) and the simulator is built from a scratch copy of /verif/sim whose tarpc path
# dependency points there (/var/tmp/msim). Use while something else (a background thorough run)
# is building from /repo. Evidence and replays go to /var/tmp/mverif.
set -u
patch="$(readlink -f "$1")"; shift
if [ ! -d /var/tmp/mrepo ]; then git -C /repo worktree add -q --detach /var/tmp/mrepo HEAD || exit 2; fi
git -C /var/tmp/mrepo reset -q --hard "$(git -C /repo rev-parse HEAD)"
mkdir -p /var/tmp/msim /var/tmp/mverif
rsync -a --delete --exclude target --exclude build.log --exclude 'last-*.stderr' /verif/sim/ /var/tmp/msim/
sed -i 's#path = "/repo/tarpc"#path = "/var/tmp/mrepo/tarpc"#' /var/tmp/msim/Cargo.toml
cp /verif/known_findings.json /var/tmp/mverif/
cd /var/tmp/mrepo || exit 2
if ! git apply "$patch" 2>/dev/null; then echo "patch does not apply cleanly"; exit 2; fi
cd /var/tmp/msim || exit 2
if ! CARGO_NET_OFFLINE=true cargo build --release --offline >/var/tmp/msim/build.log 2>&1; then echo "build failed"; tail -5 /var/tmp/msim/build.log; git -C /var/tmp/mrepo reset -q --hard; exit 2; fi
for p in "$@"; do
  out=$(VERIF_DIR=/var/tmp/mverif VERIF_SCALE=${VERIF_SCALE:-1} /var/tmp/msim/target/release/tarpc-sim check "$p" 2>/dev/null); rc=$?
  echo "== $p exit=$rc"
  echo "$out" | grep -E "^(violation|VIOLATION|KNOWN|harness)" | cut -c1-300 | head -8
done
git -C /var/tmp/mrepo reset -q --hard
