#!/bin/bash
# usage: try_mutant.sh <patch.diff> <prop> [<prop>...]
# Applies a seeded change to /repo, runs the named checks (quick tier), reverts. Never commits.
set -u
patch="$(readlink -f "$1")"; shift
cd /repo || exit 2
if ! git diff --quiet || ! git diff --cached --quiet; then echo "refusing: /repo has uncommitted changes"; exit 2; fi
if ! git apply --check "$patch" 2>/dev/null; then
  if git apply --3way --check "$patch" 2>/dev/null; then :; else echo "patch does not apply"; exit 2; fi
fi
git apply "$patch" || git apply --3way "$patch"
trap 'git -C /repo reset -q --hard HEAD; git -C /repo status --short | head -3' EXIT
cd /verif
# evidence and replays of runs against a seeded change go to a scratch directory
mkdir -p /var/tmp/mverif && cp /verif/known_findings.json /var/tmp/mverif/
for p in "$@"; do
  out=$(VERIF_DIR_OVERRIDE=/var/tmp/mverif VERIF_SCALE=${VERIF_SCALE:-1} ./check "$p" 2>&1); rc=$?
  echo "== $p exit=$rc"
  echo "$out" | grep -E "^(violation|VIOLATION|KNOWN|harness)" | cut -c1-300 | head -8
done
