#!/bin/bash
# usage: confirm_mutant.sh <worktree> <id>   -- independent confirmation of a seeded change:
#  (1) patch applies to a clean checkout, (2) existing suite passes with it (except compile_fail::ui),
#  (3) demo fails with it, (4) demo passes without it.  Writes <worktree>/OUT/confirm.txt
set -u
wt="$1"; id="$2"; lid=$(echo "$id" | tr 'A-Z' 'a-z'); demo="demo_${3:-$lid}"
cd "$wt" || exit 2
out="$wt/OUT/confirm.txt"; : > "$out"
git checkout -q -- . ; rm -f tarpc/tests/demo_*.rs
if ! git apply "$wt/OUT/patch.diff"; then echo "APPLY FAILED" | tee -a "$out"; exit 1; fi
cp "$wt/OUT/${demo}.rs" "$wt/tarpc/tests/${demo}.rs"
echo "## suite with change" >> "$out"
cargo test --workspace --offline --no-fail-fast 2>&1 | grep -E "^test result|FAILED|failed|panicked" | head -60 >> "$out"
echo "## demo with change" >> "$out"
cargo test --offline -p tarpc --features full --test "$demo" 2>&1 | grep -E "^test |test result" >> "$out"
git apply -R "$wt/OUT/patch.diff"
echo "## demo without change" >> "$out"
cargo test --offline -p tarpc --features full --test "$demo" 2>&1 | grep -E "^test |test result" >> "$out"
echo "done" >> "$out"
