#!/usr/bin/env python3
"""Regenerates /verif/MANIFEST.json from the table below (kept next to the code so the
manifest cannot drift from what ./check implements)."""
import json, subprocess, os

HERE = os.path.dirname(os.path.dirname(os.path.abspath(__file__)))

CHECKS = {
    # id: (level category, technique, level text, level note, design ref)
}

def add(pid, cat, technique, text, note, ref):
    CHECKS[pid] = (cat, technique, text, note, ref)

EXPL = "deterministic simulation: seeded search over scenarios, schedules and fault plans"
ENUM = "deterministic simulation: fault enumeration (one fault per transport operation of a fault-free run) over seeded scenarios and schedules"

add("C01", "exploration", EXPL,
    "Seeded exploration: real client dispatch over a scripted transport and peer that answers reordered, duplicated, late and with ids never issued; every resolved call is matched against the replies actually read for its id. A clean batch is evidence over the sampled schedules, not a proof.",
    "Trusts tokio/futures channels and DelayQueue; single-threaded interleaving at poll granularity plus preemption at transport calls and the H2/H4 yield points.", "DESIGN.md §5 C01")
add("C02", "exploration", EXPL,
    "Bounded liveness at quiescence under strict wake-only scheduling: tasks are polled only after their waker fired, so a lost wake-up shows up as a call still pending when nothing is runnable and no timer is left.",
    "Stalls are finite, every deadline lies below the run horizon; liveness is 'resolved by quiescence once faults stop', never 'within K steps'. Also required at quiescent points: the deadline timer gets the dispatch polled at the deadline (lost-wake{timer}) and a free in-flight slot with a writable transport leaves no live call queued unsent (lost-wake{capacity}); clock jumps between polls are one of the fault kinds.", "DESIGN.md §5 C02")
add("C05", "exploration", EXPL,
    "Virtual-clock exploration of deadline classes (already expired, 0 ms .. hours, and 1-10 years under a 780-day horizon so that timers are re-armed and the timer queue renewed) against replies placed at D-2..D+1 ms, queueing delays, stalls, clock jumps and calls that start after months of quiet; checks never-early, not-late (2 ms slack, also 'never expired at all') and reply-before-deadline-wins.",
    "Timer granularity 1 ms modelled as 2 ms slack; clock read through hook H1.", "DESIGN.md §5 C05")

add("C03", "fault_enumeration", "deterministic simulation: abandonment (crash of the caller) enumerated at every suspension point of every call of seeded scenarios, plus seeded search over schedules",
    "Enumeration plus seeded exploration of abandonment at every suspension point of a call (before first poll, after k polls, at a time, request on the wire, reply queued, reply read) against capacity/buffer 1-3 and stalled sinks, with preemption inside the call guard's Drop (hook H2) and, in a share of runs, waker churn (the dispatch gets a fresh waker on every poll and only the latest one schedules it); per-id sink sequence in {eps, R, R.C} and the cancel obligation at every writable idle point.",
    "Cancel obligations are evaluated at idle points (quiescence with the clock frozen), not at poll ends, so tokio's cooperative-budget yields cannot raise alarms.", "DESIGN.md §5 C03")
add("C04", "exploration", EXPL,
    "Seeded exploration of the Cancel's position relative to handler start, completion, response buffering and write on the real BaseChannel/Requests/execute path with scripted handlers that log every poll and their drop; checks no progress / no response / not counted after a cancel, that unrelated cancels abort nothing, that a delivered cancel does not stay unread at a quiescent point and that an unlimited channel never writes a response ahead of a cancel that was already on the transport when the poll began. (Chains of services: see P-e2e in DESIGN.md.)",
    "Handler polls already in progress when the cancel is processed at a preemption point may run to their end; their result must not be transmitted.", "DESIGN.md §5 C04")
add("C06", "exploration", EXPL,
    "Virtual-clock exploration of server-side deadlines (expired on arrival .. 50 ms, and 1-30 years under a 780-day horizon) against handlers finishing at D-2..D+1 or never, with and without a per-channel limit, with stalled sinks, clock jumps and requests arriving after months of quiet; never-early, not-late at idle points (2 ms slack), nothing transmitted after expiry, no collateral aborts.",
    "The defect first recorded as a known finding (limit + not-ready sink deferred expiry, D6) is fixed in /repo 9e3abbf; its entries in known_findings.json are 'fixed' and suppress nothing.", "DESIGN.md §5 C06, §7 D6")
add("C08", "exploration", EXPL,
    "Seeded exploration with a scripted peer sending fresh ids, duplicates while in flight, ids reused after their response, cancels and close against the real channel; counts handler offers and responses per incarnation with an interval (definitely/possibly tracked) model; at no quiescent point are two handlers of one id alive, and a response goes out only if its handler finished before the request expired (incl. requests that fall overdue together inside a clock step).",
    "Id reuse after cancel/expiry with a still-buffered response is outside the property's quantifier and excluded from response attribution.", "DESIGN.md §5 C08")
add("C10", "fault_enumeration", "deterministic simulation: end-of-stream enumerated at every read of a fault-free run (client and server side), handle drop / half-close at seeded points, seeded schedules",
    "End-of-stream is substituted for every k-th read of fault-free seeded scenarios (peer close on the client, half-close on the server). Every client run ends by dropping the last handle (and a share of runs do it, or a peer EOF, mid-run): cancels owed must precede the first poll_close, nothing is written after it, the dispatch returns Ok; on peer EOF dispatch and calls end within the same idle window. Every server run ends with inbound EOF: the stream may not end while a request is in flight or a response unflushed, and must end at the first idle point after.",
    "EOF positions are enumerated per read operation (first 16 in the quick tier, 80 in the thorough tier); handle drops are at seeded times and at the end of every run.", "DESIGN.md §5 C10")
add("C11", "exploration", EXPL,
    "In-flight and timer counts (hook H3) sampled after every dispatch / request-stream poll: client never above max_in_flight (also derived from the wire), server count within the interval model at every sample, and zero entries and zero timers at every idle point where all calls / yielded requests have ended (answered, cancelled, expired, dropped by the application, or ended by a handler panic that the executor contained), with the clock stopped.",
    "Fault runs are included: after a failed response write the count sampled in the failing poll is still compared (the answered request has ended for the channel).", "DESIGN.md §5 C11")
add("C12", "exploration", EXPL,
    "Limits 0-3 and the far ends of usize (usize::MAX, isize::MAX+1, ...) on the real MaxRequests over BaseChannel, set on the channel, by a listener-wide default, or twice (either nesting order, judged against the stricter), with bursts, floods, cancels, completion orders and sink stalls; interval model: never yielded with L definitely in flight, refused only if L were possibly in flight when read, exactly one throttle response, never executed.",
    "Expiry and guard-drop processing are not observable, so such requests stay in the upper bound (no alarm from an unprovable stale count).", "DESIGN.md §5 C12, §7 D8")
add("C14", "exploration", EXPL,
    "A contract monitor inside the simulated transport checks every Sink call of the client dispatch, the server channel and the throttler: readiness token before each write, nothing after close/failure, no Pending with unflushed items, at most 64 not-ready results per poll; capacities 1,2,3,inf, coupled and independent readiness, stalls.",
    "Monitor state machine is DESIGN.md A.3.", "DESIGN.md §5 C14, §7 D2")
add("C16", "exploration", EXPL,
    "Well-typed boundary-valued deadlines from local callers (client dispatch) and from the peer (server channel), with no subscriber, a formatting subscriber and the OpenTelemetry SDK layer installed, including 780-day runs in which far-deadline requests arrive at t=0 or after 70-600 quiet days; and byte-level adversaries (bit flips and length-changing splices of valid frames, garbage frames, floods, truncation at every cut point) against a real server channel and a real client dispatch over the serde transport. Any panic in any task is a violation; malformed frames must end the connection with an error; a well-formed probe after tolerated input must still be served.",
    "One known finding (D9): a frame cut by EOF exactly after its 4-byte length prefix ends the connection cleanly (tokio_util LengthDelimitedCodec behaviour).", "DESIGN.md §5 C16, §7 D5/D7")
add("C18", "exploration", EXPL,
    "Distinct caller-supplied trace ids and sampling decisions per call under concurrency and cancellation: transmitted trace id = caller's, fresh span per hop, Cancel carries the Request's transmitted context, handler observes what was transmitted; the context is checked wherever a request is handed out (request stream, or an application reading the bare channel by hand).",
    "Span ids come from a deterministic source (hook H5) and are compared only for (in)equality. With the OpenTelemetry layer the first hop's trace is the root span's own; from hop 1 on, and for every handler, the transmitted trace id and sampling decision must be preserved.", "DESIGN.md §5 C18")

add("C07", "exploration", EXPL,
    "Virtual-clock exploration of deadline propagation: request deadlines from 0 ms (already expired at encode time) to 1 h through JSON and bincode over a SimPipe with virtual latency and through the in-memory transport, and service chains of depth 1-3 over mixed links; the deadline each handler observes is compared with the caller's deadline and the measured transit time (never earlier, never stretched beyond transit, expired arrives as now), and JSON requests omitting the deadline must get decode time + 10 s.",
    "Clock read through hook H1; all virtual instants are whole milliseconds.", "DESIGN.md §5 C07")
add("C09", "fault_enumeration", ENUM,
    "One injected transport failure per run at the k-th poll_ready / start_send / poll_flush / poll_close / poll_next, or end-of-stream instead of the k-th read, with k drawn over the whole run, on top of the general client and server scenario spaces: the dispatch / request stream must report the failed activity, every outstanding call fails with a connection error, later calls fail fast, a failed request write fails only that call, dropped channels abort their handlers, and nothing panics.",
    "k is sampled per run rather than enumerated exhaustively for one scenario; evidence reports how often each fault kind fired.", "DESIGN.md §5 C09")
add("C13", "exploration", EXPL,
    "Real MaxChannelsPerKey over real BaseChannels fed by a scripted listener: batches of arrive/close with the listener polled at tape-chosen points, 40% of batches making a close and a same-key arrival pending at one poll; keys whose hashes collide, limits 1-3 and u32::MAX, and rarely a crowd of about a thousand keys that mostly leave before the rest is tried again; a reference map of live channels per key decides over-limit, over-shed and capacity freeing.",
    "Drops of admitted channels are atomic harness steps.", "DESIGN.md §5 C13, §7 D3")
add("C15", "exploration", EXPL,
    "Sequences of 0-12 protocol messages (all variants, boundary ids and trace ids, empty/unicode/64 KiB bodies, every io::ErrorKind) through the shipped serde transport with JSON and bincode over a SimPipe that fragments reads and writes (down to byte-by-byte), returns Pending, limits capacity and adds latency, and through the in-memory bounded/unbounded channels, with the default 4-byte and with a 2-byte length prefix (a message it cannot express is refused at the sink; whatever was accepted must arrive); reader's items must equal writer's, then end-of-stream; hand-built JSON frames omit optional fields.",
    "Split positions are sampled by the tape, not enumerated.", "DESIGN.md §5 C15, §7 D1")

add("C20", "exploration", EXPL,
    "RoundRobin over 1-5 scripted backends driven by 1-6 concurrent caller tasks (with abandoned, expired-deadline and never-polled calls, cloned handles, callers that render the stub with {:?} between calls, and preemption at the cursor's yield point, hook H4): per-backend selection counts never differ by more than one after any selection; ConsistentHash with fixed-key SipHash and degenerate hashers: equal requests map to one valid backend; Retry (with caller deadlines, slow attempts, an abandoned earlier call, and with or without a TRACE-level subscriber) against a reference retry loop: attempts numbered 1,2,3.., identical Arc-shared request, stops exactly when the policy declines, last result returned unchanged.",
    "The consistent-hash clause is input sampling (no schedule dependence); backends are scripted stubs.", "DESIGN.md §5 C20")

NOT_YET = {}
NOT_APPLICABLE = {
    "C17": "quantifies over programs (service definitions) and is decided at macro-expansion/compile time; the generated glue has no schedule, clock, fault or interleaving of its own for a simulator to vary",
    "C19": "purely sequential composition of async hook functions inside one handler future: outcome is a function of hook configuration and inputs, identical under every schedule, clock and fault plan",
}

def main():
    props = [json.loads(l)["id"] for l in open(os.path.join(HERE, "properties.jsonl"))]
    hooks = subprocess.run(["git", "-C", "/repo", "log", "--format=%H %s"], capture_output=True, text=True).stdout.splitlines()
    hook_commits = [l.split()[0] for l in hooks if " verif hook" in l]
    checks = []
    for pid in props:
        if pid in CHECKS:
            cat, tech, text, note, ref = CHECKS[pid]
            checks.append({
                "property_id": pid,
                "quick_cmd": f"./check {pid} --tier quick",
                "thorough_cmd": f"./check {pid} --tier thorough",
                "evidence_file": f"/verif/evidence/{pid}.json",
                "replay_cmd_template": "./check replay {path}",
                "engine": "tarpc-sim",
                "level_claimed": {"category": cat, "text": text, "design_ref": ref},
                "level_note": note,
                "technique": tech,
            })
    na = []
    for pid in props:
        if pid in CHECKS:
            continue
        reason = NOT_APPLICABLE.get(pid) or NOT_YET.get(pid) or "check not built yet in this revision of /verif (planned in DESIGN.md §5); not claimed"
        na.append({"property_id": pid, "reason": reason})
    m = {
        "version": 1,
        "setup_cmd": "cd /verif/sim && CARGO_NET_OFFLINE=true cargo build --release --offline",
        "hooks": {
            "guard": "--cfg tarpc_verif",
            "enable": "RUSTFLAGS='--cfg tarpc_verif' via /verif/sim/.cargo/config.toml; tarpc is a path dependency of /verif/sim, so every check rebuilds it from /repo's working tree with the hooks on",
            "baseline_off_cmd": "cd /repo && cargo nextest run --workspace --no-fail-fast --tool-config-file pb:/w/lib/nextest.toml --profile pb --test-threads 8 --offline || cargo test --workspace --no-fail-fast --offline",
            "source_commits": hook_commits,
            "add_only": True,
        },
        "engines": [{
            "name": "tarpc-sim",
            "path": "/verif/sim",
            "serves_properties": sorted(CHECKS.keys()),
            "kind_free_text": "deterministic simulator: seeded scheduler inside a paused tokio current-thread runtime, scripted transports/peers/handlers with fault injection, history oracles, shrinking and exact replay",
        }],
        "checks": checks,
        "not_applicable": na,
        "notes": "Exit codes of every check: 0 held, 1 violation (VIOLATION line + replay file), 2 harness error. VERIF_SEED selects the batch; default seed is fixed. Known findings: /verif/known_findings.json.",
    }
    json.dump(m, open(os.path.join(HERE, "MANIFEST.json"), "w"), indent=1)
    print("wrote MANIFEST.json with", len(checks), "checks,", len(na), "not claimed")

if __name__ == "__main__":
    main()
