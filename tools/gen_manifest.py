#!/usr/bin/env python3
"""Regenerates /verif/MANIFEST.json from the table below (kept next to the code so the
manifest cannot drift from what ./check implements)."""
import json, subprocess, os

HERE = os.path.dirname(os.path.dirname(os.path.abspath(__file__)))

CHECKS = {
    # id: (level category, technique, level text, level note, design ref)
}

def add(pid, cat, technique, text, note, ref):
    CHECKS[pid] = (cat, technique, text, note, ref)

EXPL = "deterministic simulation: seeded search over scenarios, schedules and fault plans"
ENUM = "deterministic simulation: fault enumeration (one fault per transport operation of a fault-free run) over seeded scenarios and schedules"

add("C01", "exploration", EXPL,
    "Seeded exploration: real client dispatch over a scripted transport and peer that answers reordered, duplicated, late and with ids never issued; every resolved call is matched against the replies actually read for its id. A clean batch is evidence over the sampled schedules, not a proof.",
    "Trusts tokio/futures channels and DelayQueue; single-threaded interleaving at poll granularity plus preemption at transport calls and the H2/H4 yield points.", "DESIGN.md §5 C01")
add("C02", "exploration", EXPL,
    "Bounded liveness at quiescence under strict wake-only scheduling: tasks are polled only after their waker fired, so a lost wake-up shows up as a call still pending when nothing is runnable and no timer is left.",
    "Stalls are finite, every deadline lies below the run horizon; liveness is 'resolved by quiescence once faults stop', never 'within K steps'.", "DESIGN.md §5 C02")
add("C05", "exploration", EXPL,
    "Virtual-clock exploration of deadline classes against replies placed at D-2..D+1 ms, queueing delays and stalls; checks never-early, not-late (2 ms slack) and reply-before-deadline-wins.",
    "Timer granularity 1 ms modelled as 2 ms slack; clock read through hook H1.", "DESIGN.md §5 C05")

NOT_YET = {}
NOT_APPLICABLE = {
    "C17": "quantifies over programs (service definitions) and is decided at macro-expansion/compile time; the generated glue has no schedule, clock, fault or interleaving of its own for a simulator to vary",
    "C19": "purely sequential composition of async hook functions inside one handler future: outcome is a function of hook configuration and inputs, identical under every schedule, clock and fault plan",
}

def main():
    props = [json.loads(l)["id"] for l in open(os.path.join(HERE, "properties.jsonl"))]
    hooks = subprocess.run(["git", "-C", "/repo", "log", "--format=%H %s"], capture_output=True, text=True).stdout.splitlines()
    hook_commits = [l.split()[0] for l in hooks if " verif hook" in l]
    checks = []
    for pid in props:
        if pid in CHECKS:
            cat, tech, text, note, ref = CHECKS[pid]
            checks.append({
                "property_id": pid,
                "quick_cmd": f"./check {pid} --tier quick",
                "thorough_cmd": f"./check {pid} --tier thorough",
                "evidence_file": f"/verif/evidence/{pid}.json",
                "replay_cmd_template": "./check replay {path}",
                "engine": "tarpc-sim",
                "level_claimed": {"category": cat, "text": text, "design_ref": ref},
                "level_note": note,
                "technique": tech,
            })
    na = []
    for pid in props:
        if pid in CHECKS:
            continue
        reason = NOT_APPLICABLE.get(pid) or NOT_YET.get(pid) or "check not built yet in this revision of /verif (planned in DESIGN.md §5); not claimed"
        na.append({"property_id": pid, "reason": reason})
    m = {
        "version": 1,
        "setup_cmd": "cd /verif/sim && CARGO_NET_OFFLINE=true cargo build --release --offline",
        "hooks": {
            "guard": "--cfg tarpc_verif",
            "enable": "RUSTFLAGS='--cfg tarpc_verif' via /verif/sim/.cargo/config.toml; tarpc is a path dependency of /verif/sim, so every check rebuilds it from /repo's working tree with the hooks on",
            "baseline_off_cmd": "cd /repo && cargo nextest run --workspace --no-fail-fast --tool-config-file pb:/w/lib/nextest.toml --profile pb --test-threads 8 --offline || cargo test --workspace --no-fail-fast --offline",
            "source_commits": hook_commits,
            "add_only": True,
        },
        "engines": [{
            "name": "tarpc-sim",
            "path": "/verif/sim",
            "serves_properties": sorted(CHECKS.keys()),
            "kind_free_text": "deterministic simulator: seeded scheduler inside a paused tokio current-thread runtime, scripted transports/peers/handlers with fault injection, history oracles, shrinking and exact replay",
        }],
        "checks": checks,
        "not_applicable": na,
        "notes": "Exit codes of every check: 0 held, 1 violation (VIOLATION line + replay file), 2 harness error. VERIF_SEED selects the batch; default seed is fixed. Known findings: /verif/known_findings.json.",
    }
    json.dump(m, open(os.path.join(HERE, "MANIFEST.json"), "w"), indent=1)
    print("wrote MANIFEST.json with", len(checks), "checks,", len(na), "not claimed")

if __name__ == "__main__":
    main()
