#!/bin/bash
# Sensitivity regression: applies every seeded change in /verif/seeded to /repo in turn, runs the
# check of the property it breaks (quick tier), expects exit 1, reverts. Prints one line each.
cd /verif
for d in seeded/*/; do
  id=$(basename "$d")
  if python3 -c "import json,sys;sys.exit(0 if json.load(open('$d/meta.json')).get('obsolete') else 1)" 2>/dev/null; then echo "$id -> obsolete (no longer breaks the property on the fixed tree; see meta.json)"; continue; fi
  if python3 -c "import json,sys;sys.exit(0 if json.load(open('$d/meta.json')).get('undetectable') else 1)" 2>/dev/null; then echo "$id -> not counted (see meta.json: $(python3 -c "import json;print(json.load(open('$d/meta.json')).get('why_not_counted','outside the simulated code'))"))"; continue; fi
  prop=$(python3 -c "import json;print(json.load(open('$d/meta.json'))['breaks_property'])" 2>/dev/null || echo "${id:0:3}")
  out=$(tools/try_mutant.sh "$d/patch.diff" "$prop" 2>&1)
  rc=$(echo "$out" | grep -o "exit=[0-9]*" | head -1)
  rules=$(echo "$out" | grep "^violation" | sed 's/^violation \([A-Z0-9.a-z-]*\).*/\1/' | sort -u | tr '\n' ' ')
  echo "$id -> $prop $rc  $rules"
done
