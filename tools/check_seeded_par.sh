#!/bin/bash
# Sensitivity regression without touching /repo: like check_seeded.sh, but every seeded change is
# applied to one of N scratch worktrees of /repo (tools/try_mutant_iso.sh with ISO_SUFFIX=1..N),
# N at a time. usage: [LIVE=<file>] check_seeded_par.sh [N]   (prints one line per seeded change,
# sorted, at the end; with LIVE set every result is also appended to that file as it arrives)
cd /verif
N=${1:-3}
ids=$(ls -d seeded/*/ | xargs -n1 basename)
one() {
  id=$1; k=$2; d=seeded/$id
  if python3 -c "import json,sys;sys.exit(0 if json.load(open('$d/meta.json')).get('obsolete') else 1)" 2>/dev/null; then echo "$id -> obsolete (no longer breaks the property on the fixed tree; see meta.json)"; return; fi
  if python3 -c "import json,sys;sys.exit(0 if json.load(open('$d/meta.json')).get('undetectable') else 1)" 2>/dev/null; then echo "$id -> not counted (see meta.json: $(python3 -c "import json;print(json.load(open('$d/meta.json')).get('why_not_counted','outside the simulated code'))"))"; return; fi
  prop=$(python3 -c "import json;print(json.load(open('$d/meta.json'))['breaks_property'])" 2>/dev/null || echo "${id:0:3}")
  out=$(ISO_SUFFIX=$k tools/try_mutant_iso.sh "$d/patch.diff" "$prop" 2>&1)
  rc=$(echo "$out" | grep -o "exit=[0-9]*" | head -1)
  rules=$(echo "$out" | grep "^violation" | sed 's/^violation \([A-Z0-9.a-z-]*\).*/\1/' | sort -u | tr '\n' ' ')
  echo "$id -> $prop $rc  $rules"
}
tmp=$(mktemp -d /var/tmp/seedreg.XXXX)
for k in $(seq 1 $N); do
  ( i=0; for id in $ids; do i=$((i+1)); if [ $((i % N)) -eq $((k % N)) ]; then one $id $k | tee -a "${LIVE:-/dev/null}"; fi; done > $tmp/$k.txt ) &
done
wait
cat $tmp/*.txt | sort
rm -rf $tmp
for k in $(seq 1 $N); do git -C /repo worktree remove --force /var/tmp/mrepo$k 2>/dev/null; rm -rf /var/tmp/msim$k /var/tmp/mverif$k; done
